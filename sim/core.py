"""Simulator core: runs, event logs, replay, shrinking, forked batches, evidence."""
import faulthandler
import hashlib
import json
import os
import random
import signal
import sys
import time
import traceback
from collections import Counter

HERE = os.path.dirname(os.path.abspath(__file__))
VERIF = os.path.dirname(HERE)


class Violation(Exception):
    def __init__(self, oracle, detail=None, trigger=None):
        super().__init__(oracle)
        self.oracle = oracle
        self.detail = detail or {}
        self.trigger = trigger


class Skip(Exception):
    """operation not applicable in the current world (only happens in replay/shrink)."""


class HarnessError(Exception):
    pass


class RunTimeout(BaseException):
    pass


def jdump(x):
    return json.dumps(x, sort_keys=True, separators=(",", ":"), default=_jdefault)


def _jdefault(o):
    import numpy as np
    if isinstance(o, (np.integer,)):
        return int(o)
    if isinstance(o, (np.floating,)):
        return float(o)
    if isinstance(o, np.ndarray):
        return o.tolist()
    if isinstance(o, (set, frozenset)):
        return sorted(o)
    if isinstance(o, complex):
        return [o.real, o.imag]
    return repr(o)


def h8(x):
    return hashlib.sha256(jdump(x).encode()).hexdigest()[:16]


class Run:
    """One simulated execution.  Subclasses implement propose() and apply()."""
    prop_id = "C00"

    def __init__(self, cfg):
        self.cfg = cfg
        self.stats = Counter()    # fault / schedule kinds that actually fired
        self.probes = Counter()   # named rare conditions
        self.states = set()       # digests of model states reached
        self.trans = set()        # digests of (state-class, op-kind, fault-kind, outcome)
        self.nontrivial = False
        self.oracle_steps = 0

    def propose(self, rng):
        raise NotImplementedError

    def apply(self, op):
        """execute op on the SUT, update the model, check oracles.
        Returns a JSON-able result summary that goes into the event log."""
        raise NotImplementedError

    def finish(self):
        return None


def new_entropy(rng):
    return rng.getrandbits(64)


def run_rng(seed, prop_id, idx):
    return random.Random("%s/%s/%s" % (seed, prop_id, idx))


def execute(run_cls, cfg, ops=None, rng=None, max_steps=None, want_log=False):
    """Generate-and-run (ops is None) or replay (ops given)."""
    run = run_cls(cfg)
    hasher = hashlib.sha256()
    log = [] if want_log else None
    done_ops = []
    violation = None
    step = 0
    n = max_steps if ops is None else len(ops)
    try:
        for step in range(n):
            if ops is None:
                op = run.propose(rng)
                if op is None:
                    break
            else:
                op = ops[step]
            done_ops.append(op)
            try:
                res = run.apply(op)
            except Skip:
                res = "skip"
            ev = jdump([op, res])
            hasher.update(ev.encode())
            if log is not None:
                log.append(ev)
        run.finish()
    except Violation as v:
        violation = {"step": len(done_ops) - 1, "oracle": v.oracle, "detail": v.detail,
                     "trigger": v.trigger}
        hasher.update(jdump(["VIOLATION", v.oracle]).encode())
    return {
        "cfg": cfg, "ops": done_ops, "digest": hasher.hexdigest()[:16], "steps": len(done_ops),
        "stats": run.stats, "probes": run.probes, "states": run.states, "trans": run.trans,
        "nontrivial": run.nontrivial, "oracle_steps": run.oracle_steps,
        "violation": violation, "log": log,
    }


# ------------------------------------------------------------------- shrinking
def _fails_same(run_cls, cfg, ops, oracle):
    try:
        r = execute(run_cls, cfg, ops=ops)
    except RunTimeout:
        raise
    except Exception:
        return None
    v = r["violation"]
    if v is not None and v["oracle"] == oracle:
        return r
    return None


def shrink(run_cls, cfg, ops, oracle, simplifiers=(), budget_s=60.0):
    """ddmin over the operation list (truncate after the failing step first), then
    per-operation simplification; a candidate is accepted only if the same oracle fails."""
    t0 = time.time()
    best = _fails_same(run_cls, cfg, ops, oracle)
    if best is None:
        return None
    ops = best["ops"]  # truncated at the failing step
    n = 2
    while len(ops) >= 2 and time.time() - t0 < budget_s:
        chunk = max(1, len(ops) // n)
        reduced = False
        i = 0
        while i < len(ops):
            cand = ops[:i] + ops[i + chunk:]
            if cand:
                r = _fails_same(run_cls, cfg, cand, oracle)
                if r is not None:
                    ops = r["ops"]
                    best = r
                    n = max(n - 1, 2)
                    reduced = True
                    continue
            i += chunk
            if time.time() - t0 > budget_s:
                break
        if not reduced:
            if chunk == 1:
                break
            n = min(len(ops), n * 2)
    # argument simplification
    changed = True
    while changed and time.time() - t0 < budget_s:
        changed = False
        for i in range(len(ops)):
            for simp in simplifiers:
                for cand_op in simp(ops[i]):
                    cand = ops[:i] + [cand_op] + ops[i + 1:]
                    r = _fails_same(run_cls, cfg, cand, oracle)
                    if r is not None and jdump(r["ops"]) != jdump(ops):
                        ops = r["ops"]
                        best = r
                        changed = True
                        break
    return best


# ---------------------------------------------------------------------- replay
def write_replay(path, prop_id, mode, seed, idx, result, extra=None):
    doc = {
        "property": prop_id, "mode": mode, "seed": seed, "run": idx, "cfg": result["cfg"],
        "ops": result["ops"], "violation": result["violation"],
    }
    if extra:
        doc.update(extra)
    os.makedirs(os.path.dirname(path), exist_ok=True)
    with open(path, "w") as f:
        json.dump(doc, f, indent=1, sort_keys=True, default=_jdefault)
    return path


# ------------------------------------------------------------- forked batching
_WORK = {}


def _alarm(signum, frame):
    raise RunTimeout()


def hang_limit():
    """CPU seconds one run may use (VERIF_HANG_LIMITS="<interpreted>,<jitted>")."""
    a, b = (float(x) for x in os.environ.get("VERIF_HANG_LIMITS", "40,60").split(","))
    return a if os.environ.get("NUMBA_DISABLE_JIT", "0") == "1" else b


def _chunk_worker(args):
    prop_mod_name, seed, tier, lo, hi = args
    mod = sys.modules[prop_mod_name]
    faulthandler.dump_traceback_later(900, exit=True)
    signal.signal(signal.SIGVTALRM, _alarm)
    agg = {"stats": Counter(), "probes": Counter(), "states": set(), "trans": set(),
           "digests": [], "nontrivial": [], "steps": 0, "oracle_steps": 0,
           "violations": [], "samples": [], "cfgs": Counter(), "extra": []}
    flt = json.loads(os.environ.get("VERIF_FILTER") or "null")
    for idx in range(lo, hi):
        rng = run_rng(seed, mod.PROP_ID, idx)
        cfg = mod.gen_config(rng, tier)
        if flt and any(cfg.get(k) != v for k, v in flt.items()):
            continue   # batch replay: only the runs that feed the replayed statistic
        # a run is limited in CPU time of this process (ITIMER_VIRTUAL), not in wall time, so that
        # machine load cannot turn a slow run into a "hang"; interpreted runs take milliseconds,
        # jitted runs may have to compile kernel specialisations (tens of CPU seconds)
        limit = hang_limit()
        signal.setitimer(signal.ITIMER_VIRTUAL, limit)
        try:
            r = execute(mod.RunClass, cfg, rng=rng, max_steps=cfg["steps"])
        except RunTimeout:
            r = {"cfg": cfg, "ops": [], "digest": "timeout", "steps": 0, "stats": Counter(),
                 "probes": Counter(), "states": set(), "trans": set(), "nontrivial": False,
                 "oracle_steps": 0,
                 "violation": {"step": -1, "oracle": "hang", "detail": {"cpu_limit_s": limit}, "trigger": None}}
        except MemoryError:
            # the address-space limit of this chunk process was hit inside the run (a runaway
            # allocation): same treatment as a run that does not return
            import gc
            gc.collect()
            r = {"cfg": cfg, "ops": [], "digest": "memory", "steps": 0, "stats": Counter(),
                 "probes": Counter(), "states": set(), "trans": set(), "nontrivial": False,
                 "oracle_steps": 0,
                 "violation": {"step": -1, "oracle": "hang", "detail": {"memory_exhausted": True}, "trigger": None}}
        finally:
            signal.setitimer(signal.ITIMER_VIRTUAL, 0)
        agg["stats"].update(r["stats"])
        agg["probes"].update(r["probes"])
        agg["states"].update(r["states"])
        agg["trans"].update(r["trans"])
        agg["digests"].append(r["digest"])
        agg["nontrivial"].append(bool(r["nontrivial"]))
        agg["steps"] += r["steps"]
        agg["oracle_steps"] += r["oracle_steps"]
        agg["cfgs"][cfg.get("n", 0)] += 1
        if r["violation"] is not None and len(agg["violations"]) < 50:
            agg["violations"].append({"idx": idx, "cfg": cfg, "ops": r["ops"],
                                      "violation": r["violation"]})
        if r["nontrivial"] and r["violation"] is None and 2 <= r["steps"] <= 6 and len(agg["samples"]) < 2:
            agg["samples"].append({"run": idx, "cfg": cfg, "ops": r["ops"]})
        elif r["nontrivial"] and r["violation"] is None and not agg["samples"] and not agg.get("long_sample"):
            agg["long_sample"] = {"run": idx, "cfg": cfg, "ops": r["ops"][:5], "truncated_from_steps": r["steps"]}
        if hasattr(mod, "collect_extra"):
            pass
    if not agg["samples"] and agg.get("long_sample"):
        agg["samples"].append(agg["long_sample"])
    agg.pop("long_sample", None)
    if hasattr(mod, "drain_batch_stats"):
        agg["extra"] = mod.drain_batch_stats()
    faulthandler.cancel_dump_traceback_later()
    return agg


CHUNK = {"default": 100, "C16": 10}


def chunk_bounds(prop_id, idx):
    """the chunk (one forked process) a run index belongs to: fixed-size, aligned, independent
    of the number of workers - so that the process-global history of a run is reproducible."""
    c = CHUNK.get(prop_id, CHUNK["default"])
    lo = (idx // c) * c
    return lo, lo + c


def _child_main(task, conn):
    try:
        # a runaway allocation in the system under test must end in MemoryError inside the
        # call (judged like any other exception), not in the kernel killing the worker
        import resource
        lim = int(float(os.environ.get("VERIF_CHILD_AS_GB", "10")) * (1 << 30))
        resource.setrlimit(resource.RLIMIT_AS, (lim, lim))
    except Exception:
        pass
    try:
        conn.send(("ok", _chunk_worker(task)))
    except BaseException as e:  # noqa
        try:
            conn.send(("err", repr(e) + "\n" + traceback.format_exc()))
        except Exception:
            pass
    finally:
        conn.close()
        os._exit(0)


def run_indices(mod, seed, tier, lo, hi, workers, chunk=None):
    """Run run-indices [lo,hi).  Every chunk runs in its OWN process forked from this one, so
    the process-global state a run can see (module-level caches of the system under test) is
    exactly: the parent's deterministic pre-steps + the earlier runs of the same chunk.
    Results are merged in index order."""
    import multiprocessing as mp
    from multiprocessing.connection import wait
    c = chunk or CHUNK.get(mod.PROP_ID, CHUNK["default"])
    tasks = []
    a = lo
    while a < hi:
        b = min(((a // c) + 1) * c, hi)
        tasks.append((mod.__name__, seed, tier, a, b))
        a = b
    results = {}
    if workers <= 1:
        for k, t in enumerate(tasks):
            results[k] = _chunk_worker(t)
    else:
        ctx = mp.get_context("fork")
        pending = list(enumerate(tasks))
        running = {}
        deadline = time.time() + 6 * 3600
        while pending or running:
            while pending and len(running) < workers:
                k, t = pending.pop(0)
                r, w = ctx.Pipe(duplex=False)
                p = ctx.Process(target=_child_main, args=(t, w))
                p.start()
                w.close()
                running[r] = (p, k)
            ready = wait(list(running), timeout=60)
            if time.time() > deadline:
                for p, _ in running.values():
                    p.kill()
                raise HarnessError("batch timed out")
            for r in ready:
                p, k = running.pop(r)
                try:
                    status, payload = r.recv()
                except (EOFError, OSError):
                    status, payload = "err", "worker for chunk %d died (exit code %s)" % (k, p.exitcode)
                r.close()
                p.join()
                if status != "ok":
                    for q, _ in running.values():
                        q.kill()
                    raise HarnessError("worker failed: %s" % payload)
                results[k] = payload
    results = [results[k] for k in sorted(results)]
    merged = {"stats": Counter(), "probes": Counter(), "states": set(), "trans": set(),
              "digests": [], "nontrivial": [], "steps": 0, "oracle_steps": 0,
              "violations": [], "samples": [], "cfgs": Counter(), "extra": []}
    for r in results:
        merged["stats"].update(r["stats"])
        merged["probes"].update(r["probes"])
        if len(merged["states"]) < 3_000_000:
            merged["states"].update(r["states"])
        merged["trans"].update(r["trans"])
        merged["digests"] += r["digests"]
        merged["nontrivial"] += r["nontrivial"]
        merged["steps"] += r["steps"]
        merged["oracle_steps"] += r["oracle_steps"]
        merged["violations"] += r["violations"]
        merged["samples"] += r["samples"]
        merged["cfgs"].update(r["cfgs"])
        merged["extra"].append(r["extra"])
    return merged


def load_known_findings():
    p = os.path.join(VERIF, "known_findings.json")
    if not os.path.exists(p):
        return []
    with open(p) as f:
        return json.load(f).get("findings", [])


def match_known(prop_id, violation, findings):
    for f in findings:
        if f.get("status") != "open" or f.get("property") != prop_id:
            continue
        if f.get("oracle") == violation["oracle"] and f.get("trigger") == violation.get("trigger") \
                and f.get("trigger") is not None:
            return f
    return None
