"""World of deterministic circuits shared by C09 and C10.

Hidden state the histories drive: layer packing (which layer a gate slid into), compiled
maps at gate / layer / circuit level, lazily filled inverse maps, gate objects shared
between circuits after compose, copies.  No randomness in the SUT here; the schedule is
the order of take / compose / copy / compile / forward / backward calls.
"""
import numpy as np

import refmodel as rm
import sut
from core import Run, Violation, Skip, new_entropy
from stateworld import StateWorld, RefGate


def relayout2d(gs, ps, how):
    """same values, other storage."""
    rows, cols = gs.shape
    if how == "F":
        return np.asfortranarray(gs), ps
    if how == "cols":
        big = np.zeros((rows, 2 * cols), dtype=gs.dtype)
        big[:, ::2] = gs
        return big[:, ::2], ps
    big = np.zeros((2 * rows, cols), dtype=gs.dtype)
    big[::2] = gs
    pb = np.zeros(2 * rows, dtype=ps.dtype)
    pb[::2] = ps
    return big[::2], pb[::2]


def warm_layouts():
    """JIT only: compile the kernel specialisations for every storage layout in the tranche
    parent (chunks run in fresh forks and would otherwise each recompile)."""
    pc = sut.load()
    for how in ("F", "cols", "rows"):
        for mk in (lambda g, p: pc.PauliList(g, p), lambda g, p: pc.CliffordMap(g, p)):
            for masked in (False, True):
                try:
                    base = pc.identity_map(2)
                    g, p = relayout2d(np.array(base.gs).copy(), np.array(base.ps).copy(), how)
                    o = mk(g, p)
                    m = np.array([True, False]) if masked else None
                    gen = pc.pauli("X") if masked else pc.pauli("XZ")
                    o.rotate_by(gen, m) if masked else o.rotate_by(gen)
                    mp = pc.identity_map(1) if masked else pc.identity_map(2)
                    o.transform_by(mp, m) if masked else o.transform_by(mp)
                except Exception:
                    pass


class CircWorld(StateWorld):
    """reuses gate construction from StateWorld."""
    prop_id = "C09"

    def __init__(self, cfg):
        super().__init__(cfg)
        self.cw = {}   # name -> dict(obj, cls, gates[list of sut gates], ref[list RefGate], specs, stale, compiled_any)
        self.own = "c09" if "c09" in self.flags else "c10"

    # ---------------------------------------------------------- proposals
    def propose(self, rng):
        kinds = self.cfg["ops"]
        if not self.cw:
            return self._p_ccnew(rng)
        for _ in range(20):
            kind = rng.choices(list(kinds), weights=[kinds[k] for k in kinds])[0]
            op = getattr(self, "_p_" + kind)(rng)
            if op is not None:
                return op
        return self._p_ccnew(rng)

    def _pickc(self, rng):
        return rng.choice(sorted(self.cw))

    def _p_ccnew(self, rng):
        return {"op": "ccnew", "circ": rng.choice(["c0", "c1", "c2"]),
                "cls": rng.choice(["CliffordCircuit", "CliffordCircuit", "Circuit"]) if self.S.name == "numpy"
                else "CliffordCircuit"}

    def _p_take(self, rng):
        name = self._pickc(rng)
        if len(self.cw[name]["ref"]) >= self.cfg.get("max_gates", 12):
            return None
        if "rejected_op" in self.cfg["faults"] and self.S.name == "numpy" and rng.random() < 0.06:
            q = sorted(set([rng.randrange(self.n), self.n + rng.randrange(2)]))
            return {"op": "take", "circ": name, "spec": {"kind": "gen", "qubits": q, "ctor": "set_generator",
                                                         "G": rm.pstr(rm.rand_hermitian(rng, len(q)))}, "bad": True}
        return {"op": "take", "circ": name, "spec": self._gate_spec(rng, allow_random=False, nmax=3)}

    def _p_compose(self, rng):
        cc = [c for c in sorted(self.cw) if self.cw[c]["cls"] == "CliffordCircuit"]
        if len(self.cw) < 2 or not cc:
            return None
        dst = rng.choice(cc)
        src = rng.choice([c for c in sorted(self.cw) if c != dst])
        if len(self.cw[dst]["ref"]) + len(self.cw[src]["ref"]) > self.cfg.get("max_gates", 12) + 4:
            return None
        return {"op": "compose", "dst": dst, "src": src}

    def _p_badcompose(self, rng):
        if "rejected_op" not in self.cfg["faults"] or self.S.name != "numpy":
            return None
        cc = [c for c in sorted(self.cw) if self.cw[c]["cls"] == "CliffordCircuit"]
        if not cc:
            return None
        n2 = self.n + rng.choice([1, 2, -1]) or 1
        # the other circuit carries a few generator gates: some inside the receiver's register,
        # possibly one outside - a rejected compose must not leave any of them behind
        gates = []
        for _ in range(rng.randrange(0, 4)):
            q = rng.randrange(n2)
            gates.append({"q": q, "G": rm.pstr(rm.rand_hermitian(rng, 1))})
        return {"op": "badcompose", "dst": rng.choice(cc), "n": n2, "gates": gates}

    def _p_ccopy(self, rng):
        cc = [c for c in sorted(self.cw) if self.cw[c]["cls"] == "CliffordCircuit"]
        if not cc:
            return None
        return {"op": "ccopy", "src": rng.choice(cc), "dst": rng.choice(["c0", "c1", "c2"])}

    def _p_compile(self, rng):
        return {"op": "compile", "circ": self._pickc(rng)}

    def _p_lcompile(self, rng):
        name = self._pickc(rng)
        return {"op": "lcompile", "circ": name, "layer": rng.randrange(0, 6)}

    def _p_gcompile(self, rng):
        name = self._pickc(rng)
        if not self.cw[name]["gates"]:
            return None
        return {"op": "gcompile", "circ": name, "gate": rng.randrange(len(self.cw[name]["gates"]))}

    def _probe(self, rng):
        n = self.n
        t = rng.choice(["pauli", "list", "list", "map", "state", "state"] + (["poly", "mono"] if self.S.name == "numpy" else []))
        if n > 12 and t in ("map", "state"):
            t = "list"     # wide registers (qubit indices beyond 64): operators only, no whole-group model
        if t == "mono":
            return {"ptype": "mono", "item": rm.pstr((rm.rand_letters(rng, n, False), rng.randrange(4))),
                    "c": [rng.choice([1.0, -0.5, 2.0]), rng.choice([0.0, 1.5])]}
        if t == "poly":
            L = rng.randrange(1, 5)
            return {"ptype": "poly", "items": [rm.pstr((rm.rand_letters(rng, n, False), rng.randrange(4)))
                                               for _ in range(L)],
                    "cs": [[rng.choice([1.0, -0.5, 2.0]), rng.choice([0.0, 1.5])] for _ in range(L)]}
        if t == "pauli":
            return {"ptype": "pauli", "item": rm.pstr((rm.rand_letters(rng, n, False), rng.randrange(4)))}
        if t == "list":
            L = rng.randrange(1, 6)
            return {"ptype": "list", "items": [rm.pstr((rm.rand_letters(rng, n, False), rng.randrange(4)))
                                               for _ in range(L)],
                    "view": rng.random() < 0.15}
        if t == "map":
            return {"ptype": "map", "images": sut.strs(rm.rand_clifford_images(rng, n))}
        cnt = rng.choice([n, n, rng.randrange(1, n + 1)])
        return {"ptype": "state", "gens": sut.strs(rm.rand_commuting_independent(rng, n, cnt))}

    def _layout(self, rng, probe):
        if probe["ptype"] in ("list", "map", "state", "poly") and rng.random() < 0.2:
            probe["layout"] = rng.choice(["F", "cols", "rows"])
        return probe

    def _p_fwd(self, rng):
        return {"op": "fwd", "circ": self._pickc(rng), "probe": self._layout(rng, self._probe(rng))}

    def _p_roundtrip(self, rng):
        name = self._pickc(rng)
        c = self.cw[name]
        unit = rng.choice(["circuit", "circuit", "layer", "gate"])
        op = {"op": "roundtrip", "circ": name, "unit": unit, "order": rng.choice(["fb", "bf"]),
              "probe": self._layout(rng, self._probe(rng))}
        if unit in ("layer", "gate") and rng.random() < 0.3:
            op["copy"] = True   # round trip through a copy() of the unit in its current cache state
        if unit == "layer":
            op["layer"] = rng.randrange(0, 6)
        elif unit == "gate":
            if not c["gates"]:
                return None
            op["gate"] = rng.randrange(len(c["gates"]))
        return op

    def _p_freshgate(self, rng):
        """a gate that never entered a circuit: its lazily filled inverse caches are in
        whatever state this very call sequence leaves them."""
        return {"op": "freshgate", "spec": self._gate_spec(rng, allow_random=False), "order": rng.choice(["fb", "bf"]),
                "probe": self._layout(rng, self._probe(rng)), "precompile": rng.random() < 0.3, "copy": rng.random() < 0.3}

    # ---------------------------------------------------------- execution
    def apply(self, op):
        return getattr(self, "_a_" + op["op"])(op)

    def _viol(self, oracle, **detail):
        raise Violation(self.own + "." + oracle, detail)

    def _build(self, spec):
        """gate constructors are environment here: a constructor that raises is counted, not judged."""
        try:
            return self.build_gate(spec)
        except Skip:
            raise
        except Exception as e:
            self.stats["env_error:gate_ctor:%s:%s" % (spec.get("ctor") or spec["kind"], type(e).__name__)] += 1
            raise Skip()

    def _new_entry(self, obj, cls):
        return {"obj": obj, "cls": cls, "gates": [], "ref": [], "specs": [], "stale": False, "compiled_any": False}

    def _a_ccnew(self, op):
        pc = self.pc
        if op["cls"] != "CliffordCircuit" and self.S.name != "numpy":
            raise Skip()   # torchclifford has no Circuit class
        obj = pc.identity_circuit(self.n) if op["cls"] == "CliffordCircuit" else pc.Circuit(self.n)
        self.cw[op["circ"]] = self._new_entry(obj, op["cls"])
        return "ok"

    def _get(self, op, key="circ"):
        if op[key] not in self.cw:
            raise Skip()
        return self.cw[op[key]]

    def _n_layers(self, c):
        return sum(1 for _ in c["obj"].layers_forward())

    def _a_take(self, op):
        c = self._get(op)
        if op.get("bad"):
            # rejected operation: gate on an unregistered qubit must raise ValueError and
            # leave the circuit's action unchanged (checked by every later comparison)
            pc = self.pc
            q = op["spec"]["qubits"]
            if max(q) < self.n or self.S.name != "numpy":
                raise Skip()
            G = rm.pparse(op["spec"]["G"])
            gate = pc.CliffordGate(*q)
            gate.set_generator(self.S.mk_pauli(G))
            self.stats["rejected_op"] += 1
            try:
                c["obj"].take(gate)
            except ValueError:
                return "rejected"
            except Exception as e:
                self._viol("rejected_take_wrong_exception", exc=repr(e))
            if self.own == "c09":
                self._viol("unregistered_qubit_accepted", qubits=q)
            raise Skip()
        gate, ref = self._build(op["spec"])
        if op["spec"]["kind"] in ("bmap",):
            # the forward semantics of a backward-map-only gate is the package's own inverse:
            # environment for C09 (captured), subject of C10's round trip
            ref = self.capture_gate(gate, ref.qubits)
        nl = self._n_layers(c)
        try:
            c["obj"].take(gate)
        except Exception as e:
            self._viol("take_raised", exc=repr(e), spec=op["spec"])
        c["gates"].append(gate)
        c["ref"].append(ref)
        c["specs"].append(op["spec"])
        if c["compiled_any"]:
            c["stale"] = True
            self.probes["take_after_compile(stale)"] += 1
        nl2 = self._n_layers(c)
        if nl2 > nl:
            self.probes["new_layer_opened"] += 1
        else:
            # where did it land?  (coverage accounting only)
            for depth, layer in enumerate(c["obj"].layers_backward()):
                if any(g is gate for g in getattr(layer, "gates", [])):
                    if depth >= 2:
                        self.probes["gate_slid_back_2+_layers"] += 1
                    elif depth == 1:
                        self.probes["gate_slid_back_1_layer"] += 1
                    break
        return nl2

    def _a_compose(self, op):
        dst = self._get(op, "dst")
        src = self._get(op, "src")
        if dst["cls"] != "CliffordCircuit" or dst is src:
            raise Skip()
        try:
            dst["obj"].compose(src["obj"])
        except Exception as e:
            self._viol("compose_raised", exc=repr(e))
        # gates are taken layer by layer; within the source's own packing the order of
        # gates may differ from the source's insertion order only among commuting
        # (disjoint-support) gates - the model keeps the source's insertion order
        dst["gates"] += src["gates"]
        dst["ref"] += src["ref"]
        dst["specs"] += src["specs"]
        if dst["compiled_any"]:
            dst["stale"] = True
        if src["compiled_any"]:
            self.probes["compose_of_compiled_circuit"] += 1
        self.stats["config:compose"] += 1
        return len(dst["ref"])

    def _a_badcompose(self, op):
        dst = self._get(op, "dst")
        if op["n"] == self.n or op["n"] < 1 or self.S.name != "numpy":
            raise Skip()
        other = self.pc.identity_circuit(op["n"])
        for g in op.get("gates", []):
            if g["q"] < op["n"]:
                gate = self.pc.CliffordGate(g["q"])
                gate.set_generator(self.S.mk_pauli(rm.pparse(g["G"])))
                other.take(gate)
        self.stats["rejected_op"] += 1
        try:
            dst["obj"].compose(other)
        except ValueError:
            return "rejected"
        except Exception as e:
            self._viol("rejected_compose_wrong_exception", exc=repr(e))
        if self.own == "c09":
            self._viol("compose_mismatching_N_accepted", n=op["n"])
        return "accepted"

    def _a_ccopy(self, op):
        src = self._get(op, "src")
        if src["cls"] != "CliffordCircuit":
            raise Skip()
        try:
            obj = src["obj"].copy()
        except Exception as e:
            self._viol("copy_raised", exc=repr(e))
        gates = []
        for layer in obj.layers_forward():
            gates += list(layer.gates)
        e = self._new_entry(obj, "CliffordCircuit")
        # the copy's gate objects are new; map them to the source's insertion order by
        # position in the layer walk of the source
        src_walk = []
        for layer in src["obj"].layers_forward():
            src_walk += list(layer.gates)
        if len(src_walk) != len(gates):
            self._viol("copy_gate_count", want=len(src_walk), got=len(gates))
        pos = {id(g): i for i, g in enumerate(src_walk)}
        try:
            e["gates"] = [gates[pos[id(g)]] for g in src["gates"]]
        except KeyError:
            raise Skip()
        e["ref"] = list(src["ref"])
        e["specs"] = list(src["specs"])
        e["stale"] = src["stale"]
        e["compiled_any"] = src["compiled_any"]
        self.cw[op["dst"]] = e
        self.stats["config:copy"] += 1
        return len(gates)

    def _a_compile(self, op):
        c = self._get(op)
        try:
            c["obj"].compile()
        except Exception as e:
            self._viol("compile_raised", exc=repr(e))
        c["compiled_any"] = True
        c["stale"] = False
        self.stats["config:circuit_compiled"] += 1
        if self._n_layers(c) >= 3:
            self.probes["compile_with_3+_layers"] += 1
        return "ok"

    def _a_lcompile(self, op):
        c = self._get(op)
        layers = list(c["obj"].layers_forward())
        k = op["layer"]
        if k >= len(layers):
            raise Skip()
        try:
            layers[k].compile(self.n)
        except Exception as e:
            self._viol("layer_compile_raised", exc=repr(e))
        c["compiled_any"] = True
        self.stats["config:layer_compiled"] += 1
        return "ok"

    def _a_gcompile(self, op):
        c = self._get(op)
        if op["gate"] >= len(c["gates"]):
            raise Skip()
        try:
            c["gates"][op["gate"]].compile()
        except Exception as e:
            self._viol("gate_compile_raised", exc=repr(e))
        self.stats["config:gate_compiled"] += 1
        return "ok"

    # -- probes -----------------------------------------------------------
    def make_probe(self, p):
        pc, n = self.pc, self.n
        t = p["ptype"]
        if t == "pauli":
            r = rm.pparse(p["item"])
            if len(r[0]) != n:
                raise Skip()
            return self.S.mk_pauli(r), [r], "pauli"
        if t == "list":
            rs = sut.parse_list(p["items"])
            if any(len(r[0]) != n for r in rs):
                raise Skip()
            if p.get("view"):
                junk = (tuple([2] * n), 3)
                big = []
                for r in rs:
                    big += [r, junk]
                return self.S.mk_list(big)[::2], rs, "list"
            return self.S.mk_list(rs), rs, "list"
        if t == "mono":
            r = rm.pparse(p["item"])
            if len(r[0]) != n or self.S.name != "numpy":
                raise Skip()
            obj = pc.PauliMonomial(sut.g_of(r[0]), int(r[1])).set_c(complex(*p["c"]))
            return obj, ([r], [complex(*p["c"])]), "mono"
        if t == "poly":
            rs = sut.parse_list(p["items"])
            if any(len(r[0]) != n for r in rs) or self.S.name != "numpy":
                raise Skip()
            lst = self.S.mk_list(rs)
            obj = pc.PauliPolynomial(lst.gs, lst.ps).set_cs(np.array([complex(*c) for c in p["cs"]], dtype=np.complex128))
            return obj, (rs, [complex(*c) for c in p["cs"]]), "poly"
        if t == "map":
            rs = sut.parse_list(p["images"])
            if len(rs) != 2 * n or any(len(r[0]) != n for r in rs):
                raise Skip()
            return self.S.mk_map(rs), rs, "map"
        gens = sut.parse_list(p["gens"])
        if any(len(g[0]) != n for g in gens):
            raise Skip()
        try:
            st = pc.stabilizer_state(self.S.mk_list(gens))
            a = rm.alpha(st.gs, st.ps, st.r, n)
        except Exception:
            raise Skip()
        return st, a, "state"

    def copy_probe(self, obj, kind, layout=None):
        """an independent duplicate built by the harness (copy() itself is C17's business).
        `layout`: the same values in another legal storage (Fortran order, column- or
        row-strided views of larger buffers) - what arrays look like after slicing, transposing
        or CliffordMap.inverse(); the unit under test must not care."""
        pc, S = self.pc, self.S
        if layout and S.name == "numpy" and kind in ("list", "map", "state", "poly"):
            gs, ps = relayout2d(np.array(obj.gs).copy(), np.array(obj.ps).copy(), layout)
            self.stats["storage_layout"] += 1
            if kind == "list":
                return pc.PauliList(gs, ps)
            if kind == "map":
                return pc.CliffordMap(gs, ps)
            if kind == "poly":
                return pc.PauliPolynomial(gs, ps).set_cs(np.array(obj.cs).copy())
            st = pc.StabilizerState(gs=gs, ps=ps)
            st.r = int(obj.r)
            return st
        if kind == "pauli":
            return pc.Pauli(S.clone(obj.g), int(obj.p))
        if kind == "list":
            return pc.PauliList(S.clone(obj.gs), S.clone(obj.ps))
        if kind == "map":
            return pc.CliffordMap(S.clone(obj.gs), S.clone(obj.ps))
        if kind == "poly":
            return pc.PauliPolynomial(S.clone(obj.gs), S.clone(obj.ps)).set_cs(np.array(obj.cs).copy())
        if kind == "mono":
            return pc.PauliMonomial(S.clone(obj.g), int(obj.p)).set_c(complex(obj.c))
        return S.mk_state(obj.gs, obj.ps, obj.r)

    def observe(self, obj, kind):
        if kind == "pauli":
            return [sut.pauli_to_ref(obj)]
        if kind in ("list", "map"):
            return sut.list_to_ref(obj)
        if kind == "poly":
            # a polynomial is its term list: strings/phases transform, coefficients are untouched
            return (sut.list_to_ref(obj), [complex(c) for c in obj.cs])
        if kind == "mono":
            return ([sut.pauli_to_ref(obj)], [complex(obj.c)])
        return rm.alpha(obj.gs, obj.ps, obj.r, self.n)

    def predict(self, val, kind, gates, direction="fwd"):
        seq = gates if direction == "fwd" else list(reversed(gates))
        if kind == "state":
            m = val
            for rg in seq:
                m = m.apply_map(rg.fwd if direction == "fwd" else rg.bwd, rg.qubits)
            return m
        if kind in ("poly", "mono"):
            terms, cs = val
            return (self.predict(terms, "list", gates, direction), list(cs))
        out = list(val)
        for rg in seq:
            imgs = rg.fwd if direction == "fwd" else rg.bwd
            out = [rm.apply_map(p, imgs, rg.qubits) for p in out]
        return out

    def _obs_or_viol(self, obj, kind, ctx):
        try:
            return self.observe(obj, kind)
        except rm.InvariantBroken as e:
            self._viol("result_not_a_state", ctx=ctx, what=e.what)
        except Exception as e:
            self._viol("result_malformed", ctx=ctx, exc=repr(e))

    def _a_fwd(self, op):
        c = self._get(op)
        if c["stale"]:
            self.probes["comparison_suspended(stale)"] += 1
            raise Skip()
        obj, val, kind = self.make_probe(op["probe"])
        a = self.copy_probe(obj, kind, op["probe"].get("layout"))
        b = self.copy_probe(obj, kind)
        try:
            c["obj"].forward(a)
        except Exception as e:
            self._viol("forward_raised", exc=repr(e), kind=kind)
        got = self._obs_or_viol(a, kind, "circuit.forward")
        # oracle 1: the package's own gates one at a time in insertion order
        try:
            for g in c["gates"]:
                g.forward(b)
        except Exception as e:
            self._viol("gate_forward_raised", exc=repr(e), kind=kind)
        seq = self._obs_or_viol(b, kind, "gate-by-gate")
        if kind == "state" and (int(a.r) != int(b.r)):
            self._viol("forward_vs_sequential_rank", want=int(b.r), got=int(a.r))
        if got != seq:
            self._viol("forward_vs_sequential", kind=kind, ngates=len(c["gates"]),
                       compiled=c["compiled_any"], cls=c["cls"])
        # oracle 2: independent reference circuit (also shows locality of every gate)
        want = self.predict(val, kind, c["ref"])
        if got != want:
            self._viol("forward_vs_reference", kind=kind, ngates=len(c["gates"]),
                       compiled=c["compiled_any"], cls=c["cls"])
        self.oracle_steps += 1
        if c["ref"]:
            self.nontrivial = True
        if c["compiled_any"]:
            lcomp = sum(1 for l in c["obj"].layers_forward() if getattr(l, "forward_map", None) is not None)
            if c["obj"].forward_map is None and lcomp:
                self.probes["forward_through_layer_compiled_only"] += 1
            elif c["obj"].forward_map is not None:
                self.probes["forward_through_circuit_map"] += 1
        self.trans.add(hash(("fwd", kind, len(c["ref"]), c["compiled_any"], c["cls"])) & 0xFFFFFFFFFFFF)
        self.states.add(hash(repr(got) if kind != "state" else got.key()) & 0xFFFFFFFFFFFF)
        return [kind, len(c["ref"])]

    def _raw(self, obj, kind):
        if kind == "pauli":
            return ([int(v) for v in obj.g], int(obj.p) % 4)
        if kind in ("list", "map"):
            return (np.array(obj.gs).tolist(), (np.array(obj.ps) % 4).tolist())
        if kind == "poly":
            return (np.array(obj.gs).tolist(), (np.array(obj.ps) % 4).tolist(), [complex(c) for c in obj.cs])
        if kind == "mono":
            return ([int(v) for v in obj.g], int(obj.p) % 4, complex(obj.c))
        return None

    def _roundtrip(self, unit_fwd, unit_bwd, order, probe, ctx):
        obj, val, kind = self.make_probe(probe)
        x = self.copy_probe(obj, kind, probe.get("layout"))
        before_raw = self._raw(x, kind)
        before = self.observe(x, kind)
        r0 = int(x.r) if kind == "state" else None
        try:
            if order == "fb":
                unit_fwd(x)
                mid = self._raw(x, kind)
                unit_bwd(x)
            else:
                unit_bwd(x)
                mid = self._raw(x, kind)
                unit_fwd(x)
        except Exception as e:
            self._viol("roundtrip_raised", exc=repr(e), ctx=ctx, order=order, kind=kind)
        after = self._obs_or_viol(x, kind, ctx)
        if kind == "state":
            if int(x.r) != r0:
                self._viol("roundtrip_rank", ctx=ctx, order=order, want=r0, got=int(x.r))
            if after != before:
                self._viol("roundtrip_state", ctx=ctx, order=order)
        else:
            if self._raw(x, kind) != before_raw:
                self._viol("roundtrip", ctx=ctx, order=order, kind=kind)
            if mid != before_raw:
                self.probes["roundtrip_through_nontrivial_image"] += 1
        self.oracle_steps += 1
        self.nontrivial = True
        self.states.add(hash(repr(before) if kind != "state" else before.key()) & 0xFFFFFFFFFFFF)
        return kind

    def _a_roundtrip(self, op):
        c = self._get(op)
        unit = op["unit"]
        if unit == "circuit":
            # a stale compiled circuit (gates added after compile) still has to round-trip:
            # forward and backward are stale consistently, so no suspension here (unlike `fwd`)
            if c["stale"]:
                self.probes["roundtrip_on_stale_compiled_circuit"] += 1
            u = c["obj"]
            ctx = "circuit:%s:%s" % (c["cls"], "compiled" if getattr(u, "forward_map", None) is not None
                                     else ("layers" if c["compiled_any"] else "plain"))
            if len(c["ref"]) >= 2 and getattr(u, "backward_map", None) is not None:
                self.probes["roundtrip_circuit_compiled_2+gates"] += 1
        elif unit == "layer":
            layers = list(c["obj"].layers_forward())
            if op["layer"] >= len(layers):
                raise Skip()
            u = layers[op["layer"]]
            ctx = "layer:%s" % ("compiled" if getattr(u, "forward_map", None) is not None else "plain")
        else:
            if op["gate"] >= len(c["gates"]):
                raise Skip()
            u = c["gates"][op["gate"]]
            ctx = "gate:%s:%s%s" % (c["specs"][op["gate"]]["kind"],
                                    "F" if u.forward_map is not None else "-",
                                    "B" if u.backward_map is not None else "-")
        if op.get("copy") and unit in ("layer", "gate"):
            try:
                u = u.copy()
            except Exception as e:
                self._viol("copy_raised", exc=repr(e), unit=unit)
            ctx += ":copy"
            self.stats["config:unit_copied_before_roundtrip"] += 1
        k = self._roundtrip(u.forward, u.backward, op["order"], op["probe"], ctx)
        self.trans.add(hash(("rt", ctx, op["order"], k)) & 0xFFFFFFFFFFFF)
        self.stats["config:" + ctx.split(":")[0] + "_roundtrip"] += 1
        return [ctx, k]

    def _a_freshgate(self, op):
        gate, ref = self._build(op["spec"])
        if op.get("precompile"):
            try:
                gate.compile()
            except Exception as e:
                self._viol("gate_compile_raised", exc=repr(e))
        if op.get("copy"):
            gate = gate.copy()
        ctx = "freshgate:%s:%s%s" % (op["spec"]["kind"], "F" if gate.forward_map is not None else "-",
                                     "B" if gate.backward_map is not None else "-")
        k = self._roundtrip(gate.forward, gate.backward, op["order"], op["probe"], ctx)
        self.trans.add(hash(("rt", ctx, op["order"], k)) & 0xFFFFFFFFFFFF)
        self.stats["config:gate_roundtrip"] += 1
        return [ctx, k]
