"""Seams: everything nondeterministic the properties depend on is owned here.

* VERIF_REPO selects the tree under test (default /repo) and is put first on sys.path.
* The three SUT generators (numba's per-thread Mersenne Twister, numpy's global legacy
  generator, torch's global generator) are re-seeded from one 64-bit entropy word
  immediately before every SUT call (`seed_all`).
* Measurement coins can be dictated:
    JIT    - by choosing an entropy word whose predicted coin prefix matches
             (`nb_coins` predicts, `find_entropy_for_coins` searches deterministically);
    INTERP - (NUMBA_DISABLE_JIT=1) by a coin tape answering the exact call shape
             `numpy.random.randint(2)` (`CoinTape`).
No source hook in /repo is involved.
"""
import os
import sys
import warnings

warnings.filterwarnings("ignore")

REPO = os.environ.get("VERIF_REPO", "/repo")
if sys.path[0] != REPO:
    sys.path.insert(0, REPO)

MODE = "INTERP" if os.environ.get("NUMBA_DISABLE_JIT", "0") == "1" else "JIT"

import numpy  # noqa: E402

# numpy-2 removed these aliases; the package still uses them in a few places (finding D5).
# The harness NEVER shims them: a call that needs them fails the way a user would see it.

import numba  # noqa: E402
from numba import njit  # noqa: E402

_torch = None


def torch():
    global _torch
    if _torch is None:
        import torch as _t
        _t.set_num_threads(1)
        _torch = _t
    return _torch


M64 = (1 << 64) - 1


def splitmix(x):
    """splitmix64 step: returns (next_state, output)."""
    x = (x + 0x9E3779B97F4A7C15) & M64
    z = x
    z = ((z ^ (z >> 30)) * 0xBF58476D1CE4E5B9) & M64
    z = ((z ^ (z >> 27)) * 0x94D049BB133111EB) & M64
    z = z ^ (z >> 31)
    return x, z


def subseeds(entropy):
    s, a = splitmix(entropy & M64)
    s, b = splitmix(s)
    s, c = splitmix(s)
    return a & 0xFFFFFFFF, b & 0xFFFFFFFF, c & 0x7FFFFFFFFFFFFFFF


@njit
def _nb_seed(s):
    numpy.random.seed(s)


@njit
def _nb_coins(k):
    out = numpy.empty(k, dtype=numpy.int64)
    for i in range(k):
        out[i] = numpy.random.randint(2)
    return out


def nb_seed(s):
    _nb_seed(int(s))


def nb_coins(seed32, k):
    """the next k measurement coins a jitted kernel will draw after nb_seed(seed32)."""
    _nb_seed(int(seed32))
    return [int(x) for x in _nb_coins(k)]


_use_torch = False


def enable_torch_seeding():
    global _use_torch
    _use_torch = True
    torch()


def seed_all(entropy):
    """Seed every SUT generator from one entropy word."""
    a, b, c = subseeds(entropy)
    if MODE == "JIT":
        _nb_seed(a)
        numpy.random.seed(b)
    else:
        # under NUMBA_DISABLE_JIT the kernels draw from numpy's global generator too
        numpy.random.seed(a ^ (b << 1) & 0xFFFFFFFF)
    if _use_torch:
        _torch.manual_seed(c)


# ---------------------------------------------------------------- coin forcing
class CoinTape:
    """INTERP only: answers numpy.random.randint(2) from a tape; everything else is
    forwarded.  When the tape is exhausted the seeded generator answers."""

    def __init__(self):
        self.tape = []
        self.pos = 0
        self.drawn = []
        self.installed = False
        self._orig = None

    def install(self):
        if self.installed:
            return
        assert MODE == "INTERP"
        self._orig = numpy.random.randint
        tape = self

        def randint(*args, **kwargs):
            if len(args) == 1 and not kwargs and isinstance(args[0], int) and args[0] == 2:
                if tape.pos < len(tape.tape):
                    v = tape.tape[tape.pos]
                    tape.pos += 1
                else:
                    v = int(tape._orig(2))
                tape.drawn.append(v)
                return v
            return tape._orig(*args, **kwargs)

        numpy.random.randint = randint
        self.installed = True

    def load(self, coins):
        self.tape = list(coins)
        self.pos = 0
        self.drawn = []


COIN_TAPE = CoinTape()

_coin_table = {}


def find_entropy_for_coins(base_entropy, pattern):
    """JIT: deterministic search for an entropy word (starting from base_entropy) whose
    numba sub-seed yields the coin prefix `pattern`.  Returns the word, or None if not
    found within the budget (then the caller falls back to a fair schedule)."""
    k = len(pattern)
    e = base_entropy & M64
    for _ in range(1 << min(k + 4, 14)):
        a, _, _ = subseeds(e)
        key = (a, k)
        c = _coin_table.get(key)
        if c is None:
            c = tuple(nb_coins(a, k))
            if len(_coin_table) < 200000:
                _coin_table[key] = c
        if list(c) == list(pattern):
            return e
        e = (e * 6364136223846793005 + 1442695040888963407) & M64
    return None


def prepare_call(op):
    """Called immediately before a SUT call.  `op` carries 'entropy' and optionally
    'coins' (INTERP: the tape)."""
    seed_all(op["entropy"])
    if MODE == "INTERP":
        COIN_TAPE.install()
        COIN_TAPE.load(op.get("coins") or [])


def import_sut():
    import pyclifford
    assert os.path.realpath(pyclifford.__file__).startswith(os.path.realpath(REPO) + os.sep), (
        pyclifford.__file__, REPO)
    return pyclifford


def import_sut_torch():
    enable_torch_seeding()
    import torchclifford
    assert os.path.realpath(torchclifford.__file__).startswith(os.path.realpath(REPO) + os.sep)
    return torchclifford
