"""World of stabilizer states (and circuits with measurement layers) shared by C05, C06, C14.

Every operation is a literal record (strings such as "-XYZ", qubit lists, entropy word)
so that a recorded run replays without any PRNG.  Which oracles fire is decided by
cfg["flags"]: {"c05","c06","c14"}; operations a check does not own are *environment*:
the model is re-synchronised from alpha(observed state).
"""
import numpy as np

import refmodel as rm
import seams
import sut
from core import Run, Violation, Skip, new_entropy

NAMED_1Q = ["H", "S", "X", "Y", "Z"]


def _hash_state(m):
    return hash(m.key()) & 0xFFFFFFFFFFFF


def relayout_arrays(gs, ps, how):
    """same values, other storage: 'F' = Fortran-ordered tableau; 'views' = tableau and phase
    vector as strided views of larger buffers."""
    n2 = gs.shape[0]
    if how == "F":
        return np.asfortranarray(gs), ps
    big = np.zeros((n2, 2 * n2), dtype=np.int_)
    big[:, ::2] = gs
    pb = np.zeros(2 * n2, dtype=np.int_)
    pb[::2] = ps
    return big[:, ::2], pb[::2]


def warm_layouts():
    """JIT only: compile, in the tranche parent, the kernel specialisations for every storage
    layout the worlds produce (chunks run in fresh forks and would otherwise each recompile)."""
    pc = sut.load()
    n = 2
    obs_ref = [((3, 0), 0), ((0, 1), 2)]

    def states():
        for how in (None, "F", "views", "views_psC"):
            st = pc.stabilizer_state(sut.mk_list([((3, 3), 0)]))
            if how:
                gs, ps = relayout_arrays(np.array(st.gs).copy(), np.array(st.ps).copy(), how.split("_")[0])
                if how.endswith("psC"):
                    ps = np.ascontiguousarray(ps)
                st = pc.StabilizerState(gs=gs, ps=ps, r=int(st.r))
            yield st
    for k, _ in enumerate(states()):
        for via in ("list", "stride", "state", "stateF"):
            st = list(states())[k]
            if via == "list":
                obj = sut.mk_list(obs_ref)
            elif via == "stride":
                junk = ((1, 1), 1)
                obj = sut.mk_list([obs_ref[0], junk, obs_ref[1], junk])[::2]
            else:
                o = pc.stabilizer_state(sut.mk_list([((3, 0), 0), ((0, 3), 0)]))
                if via == "stateF":
                    gs, ps = relayout_arrays(np.array(o.gs).copy(), np.array(o.ps).copy(), "F")
                    o = pc.StabilizerState(gs=gs, ps=ps, r=0)
                obj = o
            try:
                st.measure(obj)
            except Exception:
                pass
        for fn in (lambda s: s.rotate_by(sut.mk_pauli(((1, 3), 0))),
                   lambda s: s.rotate_by(sut.mk_pauli(((1,), 0)), sut.mk_mask([1], n)),
                   lambda s: s.transform_by(sut.mk_map(rm.identity_images(2))),
                   lambda s: s.transform_by(sut.mk_map(rm.identity_images(1)), sut.mk_mask([0], n)),
                   lambda s: pc.MeasureLayer(0, 1, N=n).forward(s),
                   lambda s: s.expect(sut.mk_list(obs_ref)),
                   lambda s: s.copy().set_r(0).postselect(sut.mk_pauli(((3, 0), 0)), 0),
                   lambda s: s.copy(),
                   lambda s: s.sample(2),
                   lambda s: s.to_map().inverse(),
                   lambda s: pc.diagonalize(s.set_r(0)).forward(s),
                   lambda s: pc.diagonalize(s.set_r(0)).backward(s),
                   lambda s: s.transform_by(sut.mk_map(rm.identity_images(2))).transform_by(sut.mk_map(rm.identity_images(2))),
                   lambda s: pc.stabilizer_state(s.stabilizers),
                   lambda s: s.entropy([0])):
            st = list(states())[k]
            try:
                fn(st)
            except Exception:
                pass


class RefGate:
    """semantics of one deterministic gate on ascending qubits: images of local X_i,Z_i
    forward and backward (captured or harness-known)."""
    __slots__ = ("qubits", "fwd", "bwd")

    def __init__(self, qubits, fwd, bwd):
        self.qubits, self.fwd, self.bwd = list(qubits), fwd, bwd


def word_images(n, word):
    imgs = rm.identity_images(n)
    for G in word:
        imgs = [rm.rotate(p, G) for p in imgs]
    return imgs


def inverse_word(word):
    return [(l, (k + 2) & 3) for (l, k) in reversed(word)]


def rand_word(rng, n, maxlen=None):
    k = rng.randrange(0, (maxlen or (3 * n + 3)))
    return [rm.rand_hermitian(rng, n) for _ in range(k)]


class StateWorld(Run):
    prop_id = "C05"

    def __init__(self, cfg):
        super().__init__(cfg)
        self.S = sut.backend(cfg.get("backend", "numpy"))
        self.pc = self.S.mod
        self.n = cfg["n"]
        self.flags = set(cfg["flags"])
        self.slots = {}
        self.model = {}
        self.circs = {}     # name -> dict(obj, prog(list), last_record, ran)
        self.last_meas = None
        self.own = "c05" if "c05" in self.flags else ("c06" if "c06" in self.flags else "c14")

    # ------------------------------------------------------------ utilities
    def _viol(self, oracle, **detail):
        raise Violation(self.own + "." + oracle, detail)

    def _resync(self, name, ctx):
        """environment step: model := alpha(observed); C05 owns the invariant."""
        st = self.slots[name]
        try:
            self.model[name] = rm.alpha(st.gs, st.ps, st.r, self.n)
        except rm.InvariantBroken as e:
            if "c05" in self.flags:
                raise Violation("c05.invariant", {"slot": name, "after": ctx, "what": e.what})
            self.stats["env_broken_state"] += 1
            del self.slots[name]
            del self.model[name]
            return False
        except Exception as e:  # malformed arrays etc.
            if "c05" in self.flags:
                raise Violation("c05.invariant", {"slot": name, "after": ctx, "what": repr(e)})
            self.stats["env_broken_state"] += 1
            del self.slots[name]
            del self.model[name]
            return False
        self.states.add(_hash_state(self.model[name]))
        return True

    def _check_all(self, ctx):
        if "c05" not in self.flags:
            return
        for name in list(self.slots):
            st = self.slots[name]
            try:
                a = rm.alpha(st.gs, st.ps, st.r, self.n)
            except rm.InvariantBroken as e:
                raise Violation("c05.invariant", {"slot": name, "after": ctx, "what": e.what})
            except Exception as e:
                raise Violation("c05.invariant", {"slot": name, "after": ctx, "what": repr(e)})
            if self.n <= 3 and self.cfg.get("dense") and self.oracle_steps % 7 == 0:
                rho = a.dense()
                ev = np.linalg.eigvalsh(rho)
                if not (abs(np.trace(rho) - 1) < 1e-9 and ev.min() > -1e-9
                        and np.allclose(rho @ rho, rho / 2 ** a.rank)):
                    raise Violation("c05.dense", {"slot": name, "after": ctx})
            self.oracle_steps += 1

    def _state(self, op, key="slot"):
        name = op[key]
        if name not in self.slots:
            raise Skip()
        return name, self.slots[name]

    def _qubits_mask(self, qubits):
        return None if qubits is None else sut.mk_mask(qubits, self.n)

    def _env_call(self, name, ctx, fn):
        try:
            fn()
        except Exception as e:
            self.stats["env_error:%s:%s" % (ctx, type(e).__name__)] += 1
        return self._resync(name, ctx)

    # ------------------------------------------------------------ proposals
    def propose(self, rng):
        cfg = self.cfg
        kinds = cfg["ops"]
        if not self.slots:
            return self._p_new(rng)
        for _ in range(20):
            kind = rng.choices(list(kinds), weights=[kinds[k] for k in kinds])[0]
            op = getattr(self, "_p_" + kind)(rng)
            if op is not None:
                return op
        return self._p_new(rng)

    def _free_slot(self, rng):
        maxs = self.cfg.get("max_slots", 3)
        names = ["s%d" % i for i in range(maxs)]
        free = [s for s in names if s not in self.slots]
        return free[0] if free and rng.random() < 0.8 else rng.choice(names)

    def _p_new(self, rng):
        n = self.n
        ctors = self.cfg.get("ctors") or ["zero", "one", "ghz", "mixed", "stab", "stab", "stab",
                                          "rcs", "rps", "rbs", "tostate", "stab_state"]
        c = rng.choice(ctors)
        op = {"op": "new", "slot": self._free_slot(rng), "ctor": c, "entropy": new_entropy(rng)}
        if c == "stab":
            cnt = rng.randrange(1, n + 1)
            gens = rm.rand_commuting_independent(rng, n, cnt)
            op["gens"] = sut.strs(gens)
            u = rng.random()
            if n >= 3 and rng.random() < 0.15:
                # a one-qubit operator hidden in the group as the product of several generators that
                # overlap (and do not commute site by site) on the OTHER qubits:
                # g1 = (l on q) * R_1 * ... * R_k,  g_i = R_i
                q = rng.randrange(n)
                rest = [i for i in range(n) if i != q]
                k = rng.randrange(2, min(n - 1, 4) + 1)
                rs = rm.rand_commuting_independent(rng, n - 1, k)
                emb = []
                for (ls, ph) in rs:
                    full = [0] * n
                    for i, a in zip(rest, ls):
                        full[i] = a
                    emb.append((tuple(full), ph))
                g1 = (tuple(rng.choice((1, 2, 3)) if i == q else 0 for i in range(n)), rng.choice((0, 2)))
                for e in emb:
                    g1 = rm.pmul(g1, e)
                if rm.hermitian(g1):
                    gens = [g1] + emb
                    rng.shuffle(gens)
                    op["gens"] = sut.strs(gens)
                    op["hidden_local"] = q
                    u = 1.0
            if u < 0.25:
                op["form"] = "strings"      # stabilizer_state("-XZ", "ZX"): parsed by paulis(...)
            elif u < 0.40:
                # a redundant list (a duplicate, the product of two entries with its correct sign,
                # or the identity): a rejected operation - raising is fine, a returned state must be valid
                how = rng.choice(["dup", "prod", "ident"]) if cnt >= 2 else rng.choice(["dup", "ident"])
                if how == "dup":
                    extra = gens[rng.randrange(cnt)]
                elif how == "prod":
                    i, j = rng.sample(range(cnt), 2)
                    extra = rm.pmul(gens[i], gens[j])
                else:
                    extra = (tuple([0] * n), 0)
                gens = list(gens)
                gens.insert(rng.randrange(len(gens) + 1), extra)
                op["gens"] = sut.strs(gens)
                op["redundant"] = how
        elif c in ("rcs", "rps"):
            op["r"] = rng.choice([None, 0] + list(range(n + 1)))
        elif c == "tostate":
            op["images"] = sut.strs(rm.rand_clifford_images(rng, n))
            op["r"] = rng.choice([None] + list(range(n + 1)))
        elif c == "stab_state":
            # a state's stabilizers as the constructor's input (view operand)
            src = [s for s in self.slots if self.model[s].rank < n]
            if not src:
                return self._p_new(rng)
            op["src"] = rng.choice(sorted(src))
        return op

    def _pick(self, rng):
        return rng.choice(sorted(self.slots))

    def _p_rot(self, rng):
        n = self.n
        qubits = None
        m = n
        if n > 1 and rng.random() < 0.4:
            m = rng.randrange(1, n)
            qubits = sorted(rng.sample(range(n), m))
        return {"op": "rot", "slot": self._pick(rng), "G": rm.pstr(rm.rand_hermitian(rng, m)),
                "qubits": qubits}

    def _p_tmap(self, rng):
        n = self.n
        qubits = None
        m = n
        if n > 1 and rng.random() < 0.4:
            m = rng.randrange(1, n)
            qubits = sorted(rng.sample(range(n), m))
        return {"op": "tmap", "slot": self._pick(rng),
                "images": sut.strs(rm.rand_clifford_images(rng, m)), "qubits": qubits}

    def _gate_spec(self, rng, allow_random=True, nmax=None):
        """a literal gate description on ascending qubits of the register."""
        n = self.n
        m = rng.randrange(1, min(n, nmax or n) + 1)
        if rng.random() < 0.08 and n <= 12:
            m = n      # a gate on the whole register takes the unmasked ("global") code path
        pool = self.cfg.get("hot") if n > 12 else None
        if pool and len(pool) >= m:
            # wide registers: gates meet on a handful of qubits around the 32 / 64 boundaries
            qubits = sorted(rng.sample(pool, m))
        else:
            qubits = sorted(rng.sample(range(n), m))
        kinds = ["gen", "fmap", "bmap", "named", "fbmap"] + (["random"] if allow_random else [])
        kind = rng.choice(kinds)
        spec = {"kind": kind, "qubits": qubits}
        if kind == "gen":
            spec["G"] = rm.pstr(rm.rand_hermitian(rng, m))
            # clifford_rotation_gate condenses to the support: keep full support here
            # by construction when 'condense' is set
            spec["ctor"] = rng.choice(["set_generator", "set_generator", "rotation_gate", "rotation_gate", "rotation_gate_q",
                                       "rotation_gate_q", "set_generator_mono"])
            if spec["ctor"] == "rotation_gate_q":
                # clifford_rotation_gate(generator on m letters, qubits=ascending array): the gate
                # lives on the qubits where the generator is non-trivial
                pass
            if spec["ctor"] == "rotation_gate":
                # generator given on the whole register; the gate lives on its support
                full = rm.rand_hermitian(rng, n)
                spec["G"] = rm.pstr(full)
                spec["qubits"] = [i for i, a in enumerate(full[0]) if a]
        elif kind in ("fmap", "bmap", "fbmap"):
            w = rand_word(rng, m)
            spec["word"] = sut.strs(w)
        if m >= 2 and kind != "named" and spec.get("ctor") != "rotation_gate" and \
                rng.random() < (0.5 if m == n and kind == "gen" else 0.12):
            # the qubits handed to the constructor in a non-ascending order (cyclic shifts, swaps,
            # arbitrary permutations).  What such a gate means is the package's business
            # (captured); that backward undoes forward, compile() keeps it and a circuit applies
            # it like the gate alone does is judged as for any other gate
            order = list(range(m))
            while order == sorted(order):
                if rng.random() < 0.5:
                    k = rng.randrange(1, m)
                    order = order[k:] + order[:k]
                else:
                    rng.shuffle(order)
            spec["order"] = order
        elif kind == "named":
            if m == 2 and rng.random() < 0.7:
                spec["name"] = "CNOT"
                spec["order"] = rng.choice(["asc", "desc"])
            else:
                spec["qubits"] = [rng.choice(qubits)]
                if rng.random() < 0.5:
                    spec["name"] = rng.choice(NAMED_1Q)
                else:
                    spec["name"] = "C"
                    spec["num"] = rng.randrange(24)
        return spec

    def build_gate(self, spec):
        """returns (sut_gate, RefGate or None for random gates)."""
        pc = self.pc
        q = spec["qubits"]
        kind = spec["kind"]
        if max(q) >= self.n:
            raise Skip()
        order = spec.get("order")
        if order is not None and kind in ("gen", "fmap", "bmap", "fbmap"):
            if sorted(order) != list(range(len(q))):
                raise Skip()
            qp = [q[i] for i in order]
            if kind == "gen":
                G = rm.pparse(spec["G"])
                if len(G[0]) != len(q):
                    raise Skip()
                if spec.get("ctor") == "rotation_gate_q":
                    if self.S.name != "numpy":
                        raise Skip()
                    gate = pc.clifford_rotation_gate(self.S.mk_pauli(G), np.array(qp))
                else:
                    gate = pc.CliffordGate(*qp)
                    gate.set_generator(self.S.mk_pauli(G))
            else:
                w = sut.parse_list(spec["word"])
                if any(len(g[0]) != len(q) for g in w):
                    raise Skip()
                gate = pc.CliffordGate(*qp)
                if kind in ("fmap", "fbmap"):
                    gate.set_forward_map(self.S.mk_map(word_images(len(q), w)))
                if kind in ("bmap", "fbmap"):
                    gate.set_backward_map(self.S.mk_map(word_images(len(q), inverse_word(w))))
            self.stats["config:gate_qubits_permuted"] += 1
            return gate, self.capture_gate(gate, sorted(int(x) for x in gate.qubits))
        if kind == "gen":
            G = rm.pparse(spec["G"])
            if spec.get("ctor") == "rotation_gate_q":
                if len(G[0]) != len(q) or self.S.name != "numpy":
                    raise Skip()
                gate = pc.clifford_rotation_gate(self.S.mk_pauli(G), np.array(q))
                q2 = [int(x) for x in gate.qubits]
                loc = (tuple(G[0][q.index(x)] for x in q2), G[1])
                q = q2
            elif spec.get("ctor") == "rotation_gate":
                if len(G[0]) != self.n:
                    raise Skip()
                gate = pc.clifford_rotation_gate(self.S.mk_pauli(G))
                # the gate lives on the support chosen by the package (environment: condense)
                q = [int(x) for x in gate.qubits]
                loc = (tuple(G[0][i] for i in q), G[1])
            else:
                if len(G[0]) != len(q):
                    raise Skip()
                gate = pc.CliffordGate(*q)
                if spec.get("ctor") == "set_generator_mono" and self.S.name == "numpy":
                    # the generator handed over as a PauliMonomial (a Hamiltonian term H[k], c * pauli):
                    # set_generator accepts it (it is a Pauli); the rotation is generated by its Pauli part
                    gate.set_generator(pc.PauliMonomial(sut.g_of(G[0]), int(G[1])).set_c(spec.get("c", 1.0)))
                    self.stats["config:generator_is_a_monomial"] += 1
                else:
                    gate.set_generator(self.S.mk_pauli(G))
                loc = G
            m = len(q)
            fwd = [rm.rotate(p, loc) for p in rm.identity_images(m)]
            neg = (loc[0], (loc[1] + 2) & 3)
            bwd = [rm.rotate(p, neg) for p in rm.identity_images(m)]
            return gate, RefGate(q, fwd, bwd)
        if kind in ("fmap", "bmap", "fbmap"):
            w = sut.parse_list(spec["word"])
            m = len(q)
            if any(len(g[0]) != m for g in w):
                raise Skip()
            fwd = word_images(m, w)
            bwd = word_images(m, inverse_word(w))
            gate = pc.CliffordGate(*q)
            if kind in ("fmap", "fbmap"):
                gate.set_forward_map(self.S.mk_map(fwd))
            if kind in ("bmap", "fbmap"):
                gate.set_backward_map(self.S.mk_map(bwd))
            return gate, RefGate(q, fwd, bwd)
        if kind == "named":
            if self.S.name != "numpy":
                raise Skip()   # torchclifford has no named-gate constructors
            name = spec["name"]
            if name == "CNOT":
                qq = q if spec.get("order") == "asc" else list(reversed(q))
                gate = pc.CNOT(*qq)
            elif name == "C":
                gate = pc.C(spec["num"], *q)
            else:
                gate = getattr(pc, name)(*q)
            # named tables are environment here (C11): capture the gate's own semantics
            return gate, self.capture_gate(gate, sorted(q))
        if kind == "random":
            return pc.CliffordGate(*q), None
        raise Skip()

    def capture_gate(self, gate, qubits):
        """semantics of a gate as the package's own action on the local identity list."""
        m = len(qubits)
        g2 = gate.copy()
        # (the relative order of the gate's qubits is kept: 3,0,2 -> 2,0,1)
        asc = sorted(int(x) for x in gate.qubits)
        g2.qubits = tuple(asc.index(int(x)) for x in gate.qubits) if len(asc) == m else tuple(range(m))
        ident = self.S.mk_list(rm.identity_images(m))
        fwd = sut.list_to_ref(g2.forward(ident))
        ident = self.S.mk_list(rm.identity_images(m))
        bwd = sut.list_to_ref(g2.backward(ident))
        if not (rm.map_is_valid(fwd) and rm.map_is_valid(bwd)):
            # the package's own gate does not act as a Clifford map on the identity list: no
            # reference semantics can be captured.  For C05 the same gate applied to a state
            # with those rows is judged directly; elsewhere the gate is environment and dropped
            if "c05" in self.flags and self.S.name == "numpy":
                for direction in ("forward", "backward"):
                    st = self.pc.identity_map(m).to_state()
                    try:
                        g3 = gate.copy()
                        g3.qubits = g2.qubits
                        getattr(g3, direction)(st)
                        rm.alpha(st.gs, st.ps, st.r, m)
                    except rm.InvariantBroken as e:
                        raise Violation("c05.invariant", {"after": "gate.%s on the zero state of its own register" % direction,
                                                          "what": e.what, "qubits": [int(x) for x in gate.qubits]})
                    except Exception:
                        pass
            self.stats["env_error:gate_semantics_not_a_clifford_map"] += 1
            raise Skip()
        return RefGate(qubits, fwd, bwd)

    def _p_gate(self, rng):
        return {"op": "gate", "slot": self._pick(rng), "spec": self._gate_spec(rng),
                "dir": rng.choice(["fwd", "fwd", "bwd"]), "entropy": new_entropy(rng)}

    def _p_copy(self, rng):
        op = {"op": "copy", "src": self._pick(rng), "slot": self._free_slot(rng)}
        if rng.random() < 0.25:
            # the same state through the conversions: state -> map -> state with the rank re-imposed
            op["how"] = "map_roundtrip"
        return op

    def _p_diag(self, rng):
        pure = [s for s in sorted(self.slots) if self.model[s].rank == 0]
        if not pure:
            return None
        return {"op": "diag", "slot": rng.choice(pure), "dir": rng.choice(["fwd", "fwd", "bwd_after_fwd"])}

    def _a_diag(self, op):
        name, st = self._state(op)
        if self.model[name].rank != 0:
            raise Skip()

        def f():
            circ = self.pc.diagonalize(st)
            circ.forward(st)
            if op["dir"] == "bwd_after_fwd":
                circ.backward(st)
        self._env_call(name, "diagonalize", f)
        self.stats["diagonalize"] += 1
        return self._digest(name)

    def _p_relayout(self, rng):
        """storage fault: the same tableau values in a non-canonical memory layout (Fortran
        order, strided row / column views of larger buffers), built through the public
        constructor.  The value of the state is unchanged; every later operation must behave
        as on the canonical layout."""
        if "view_operand" not in self.cfg["faults"]:
            return None
        return {"op": "relayout", "slot": self._pick(rng), "how": rng.choice(["F", "views"])}

    def _a_relayout(self, op):
        name, st = self._state(op)
        n = self.n
        if self.S.name != "numpy":
            raise Skip()
        gs = np.array(st.gs, dtype=np.int_).copy()
        ps = np.array(st.ps, dtype=np.int_).copy()
        r = int(st.r)
        how = op["how"]
        gs, ps = relayout_arrays(gs, ps, how)
        try:
            new = self.pc.StabilizerState(gs=gs, ps=ps, r=r)
        except Exception as e:
            self.stats["env_error:relayout:%s" % type(e).__name__] += 1
            return "env_error"
        self.slots[name] = new
        self.stats["storage_layout"] += 1
        self._resync(name, "relayout")
        return how

    def _p_setr(self, rng):
        # set_r on a full tableau: any r in [0,N] is legal for a valid tableau
        return {"op": "setr", "slot": self._pick(rng), "r": rng.randrange(0, self.n + 1),
                "np_int": rng.random() < 0.3}

    # observables ---------------------------------------------------------
    def gen_obs(self, rng, name, L=None):
        n = self.n
        m = self.model[name]
        st = self.slots[name]
        rows = sut.tableau_rows(st)
        r = int(st.r)
        if L is None:
            L = rng.choice([1, 1, 2, 2, 3, n, n + 1, n + 2])
        grp = sorted(m.grp)
        obs = []
        tries = 0
        while len(obs) < L and tries < 60:
            tries += 1
            kind = rng.choice(["grp", "rand", "rand", "logical", "destab", "both", "repeat",
                               "prod", "ident", "z", "lowweight"])
            if kind == "grp":
                l = rng.choice(grp)
            elif kind == "lowweight":
                # a determined observable acting on as few qubits as the group allows (on wide
                # registers the generators it is a product of overlap elsewhere)
                cand = [g for g in grp if any(g)]
                if not cand:
                    continue
                w = min(sum(1 for a in g if a) for g in cand)
                l = rng.choice([g for g in cand if sum(1 for a in g if a) == w])
            elif kind == "rand":
                l = rm.rand_letters(rng, n)
            elif kind == "z":
                l = tuple(3 if i == rng.randrange(n) else 0 for i in range(n))
            elif kind == "logical":
                if r == 0:
                    continue
                i = rng.randrange(r) + (n if rng.random() < 0.5 else 0)
                l = rm.pmul(rows[i], (rng.choice(grp), 0))[0]
            elif kind == "destab":
                if r == n:
                    continue
                j = rng.randrange(r, n)
                l = rm.pmul(rows[n + j], (rng.choice(grp), 0))[0]
            elif kind == "both":
                if r == 0 or r == n:
                    continue
                j = rng.randrange(r, n)
                i = rng.randrange(r) + (n if rng.random() < 0.5 else 0)
                l = rm.pmul(rows[n + j], rows[i])[0]
            elif kind == "repeat":
                if not obs:
                    continue
                l = rng.choice(obs)[0]
            elif kind == "prod":
                if len(obs) < 2:
                    continue
                a, b = rng.sample(obs, 2)
                l = rm.pmul(a, b)[0]
            else:
                l = (0,) * n
            P = (l, rng.choice((0, 2)))
            if all(rm.pcommute(P[0], q[0]) for q in obs):
                obs.append(P)
        if not obs:
            obs = [rm.rand_hermitian(rng, n)]
        return obs

    def _count_undetermined(self, model, obs):
        m = model
        k = 0
        for P in obs:
            if m.eigenvalue(P) is None:
                k += 1
                m, _ = m.project(P, 1)
        return k

    def _fault_coins(self, rng, op, ncoins):
        """decide the coin schedule of a call: fair or forced."""
        op["entropy"] = new_entropy(rng)
        if "coin_force" not in self.cfg["faults"] or rng.random() < 0.5 or ncoins == 0:
            op["fault"] = "fair"
            return
        ncoins = min(ncoins, 10)
        pat = rng.choice(["zeros", "ones", "alt", "bits"])
        if pat == "zeros":
            coins = [0] * ncoins
        elif pat == "ones":
            coins = [1] * ncoins
        elif pat == "alt":
            b = rng.randrange(2)
            coins = [(b + i) % 2 for i in range(ncoins)]
        else:
            coins = [rng.randrange(2) for _ in range(ncoins)]
        op["fault"] = "force"
        op["pattern"] = coins
        if seams.MODE == "INTERP":
            op["coins"] = coins
        else:
            e = seams.find_entropy_for_coins(op["entropy"], coins)
            if e is None:
                op["fault"] = "fair"
                del op["pattern"]
            else:
                op["entropy"] = e

    def _p_measure(self, rng):
        name = self._pick(rng)
        via = "list"
        rv = rng.random()
        others = [s for s in sorted(self.slots) if s != name]
        op = {"op": "measure", "slot": name}
        if "view_operand" in self.cfg["faults"] and rv < 0.12 and (others or rv < 0.02):
            via = "state"
            # (rarely) the state itself: measuring one's own stabilizers, the observable rows
            # are then views of the very tableau the kernel works on
            other = rng.choice(others) if others and rv >= 0.02 else name
            op["other"] = other
            ost = self.slots[other]
            obs = sut.tableau_rows(ost)[int(ost.r):self.n]
            if not obs:
                via = "list"
        if via == "list" and "view_operand" in self.cfg["faults"] and rng.random() < 0.06:
            # the observables are a slice of the state's OWN tableau (stabilizer block or
            # destabilizer block): rows the kernel rewrites while it reads them as observables
            n = self.n
            blk = rng.choice([0, n])
            lo = rng.randrange(0, n)
            hi = rng.randrange(lo + 1, n + 1)
            op["rows"] = [blk + lo, blk + hi]
            via = "ownrows"
            obs = sut.tableau_rows(self.slots[name])[blk + lo:blk + hi]
            if not all(rm.hermitian(p) for p in obs):
                via = "list"
        if via == "list":
            obs = self.gen_obs(rng, name)
            if rng.random() < 0.01:
                obs = []     # measuring nothing: no outcome, probability 1, state untouched
            elif "view_operand" in self.cfg["faults"] and rv > 0.85:
                via = rng.choice(["stride", "index", "mask"])
            elif rv > 0.77:
                # the observables written as strings ("-XIZ", "YY") and parsed by paulis(...)
                via = "strings"
                op["plus"] = rng.random() < 0.5
        op["via"] = via
        op["obs"] = sut.strs(obs)
        self._fault_coins(rng, op, self._count_undetermined(self.model[name], obs))
        return op

    def _p_remeasure(self, rng):
        lm = self.last_meas
        if lm is None or lm[0] not in self.slots or "remeasure" not in self.cfg["faults"] or not lm[1]:
            return None
        name, obs = lm
        variant = rng.choice(["same", "same", "sub", "prod", "neg", "super"])
        if variant == "sub":
            k = rng.randrange(1, len(obs) + 1)
            obs2 = [obs[i] for i in sorted(rng.sample(range(len(obs)), k))]
        elif variant == "prod":
            a, b = rng.choice(obs), rng.choice(obs)
            l, k = rm.pmul(a, b)
            obs2 = [(l, k if k in (0, 2) else 0)]
        elif variant == "neg":
            obs2 = [(l, (k + 2) & 3) for (l, k) in obs]
        elif variant == "super":
            obs2 = list(obs) + [o for o in self.gen_obs(rng, name, L=2)
                                if all(rm.pcommute(o[0], q[0]) for q in obs)]
        else:
            obs2 = list(obs)
        op = {"op": "measure", "slot": name, "via": "list", "obs": sut.strs(obs2),
              "remeasure": variant}
        self._fault_coins(rng, op, self._count_undetermined(self.model[name], obs2))
        return op

    RESAMPLE_K = 48

    def _p_resample(self, rng):
        """the same measurement repeated on K harness-made copies of the same state under K
        different entropy words: every undetermined entry must show both outcomes
        (false-alarm probability 2^(1-K) per entry)."""
        name = self._pick(rng)
        obs = self.gen_obs(rng, name, L=rng.choice([1, 1, 2, 3]))
        if self._count_undetermined(self.model[name], obs) == 0:
            return None
        return {"op": "resample", "slot": name, "obs": sut.strs(obs),
                "entropies": [new_entropy(rng) for _ in range(self.RESAMPLE_K)]}

    def _a_resample(self, op):
        name, st = self._state(op)
        n = self.n
        obs = sut.parse_list(op["obs"])
        if any(len(p[0]) != n for p in obs) or not obs or "c06" not in self.flags:
            raise Skip()
        for i in range(len(obs)):
            for j in range(i):
                if not rm.pcommute(obs[i][0], obs[j][0]):
                    raise Skip()
        pre = self.model[name]
        gs, ps, r = np.array(st.gs).copy(), np.array(st.ps).copy(), int(st.r)
        outs = []
        for e in op["entropies"]:
            c = self.S.mk_state(gs, ps, r)
            seams.prepare_call({"entropy": e})
            try:
                out, _ = c.measure(self.S.mk_list(obs))
            except Exception as ex:
                raise Violation("c06.exception", {"exc": repr(ex), "obs": op["obs"]})
            outs.append([int(x) for x in out])
        if sut.raw_state(st) != (gs.tobytes(), ps.tobytes(), tuple(gs.shape), r):
            raise Skip()
        m = pre.copy()
        for k, P in enumerate(obs):
            if m.eigenvalue(P) is None:
                seen = set(o[k] for o in outs)
                if len(seen) < 2:
                    raise Violation("c06.outcome_not_random",
                                    {"k": k, "obs": rm.pstr(P), "always": sorted(seen), "trials": len(outs),
                                     "prior_rank": pre.rank})
                m, _ = m.project(P, 1)
        self.stats["resample"] += 1
        self.oracle_steps += 1
        self.nontrivial = True
        return [len(outs)]

    def _p_postselect(self, rng):
        name = self._pick(rng)
        m = self.model[name]
        if m.rank > 0 and "rejected_op" not in self.cfg["faults"]:
            return None
        kind = rng.choice(["grp", "rand", "rand", "z"])
        if kind == "grp":
            l = rng.choice(sorted(m.grp))
        elif kind == "z":
            q = rng.randrange(self.n)
            l = tuple(3 if i == q else 0 for i in range(self.n))
        else:
            l = rm.rand_letters(rng, self.n)
        op = {"op": "postselect", "slot": name, "P": rm.pstr((l, rng.choice((0, 2)))),
              "b": rng.randrange(2)}
        if "view_operand" in self.cfg["faults"] and m.rank == 0 and rng.random() < 0.08:
            # the Pauli is a row of the state's OWN tableau, handed over as a view (state[j])
            j = rng.randrange(2 * self.n)
            row = sut.tableau_rows(self.slots[name])[j]
            if rm.hermitian(row):
                op["P"] = rm.pstr(row)
                op["ownrow"] = j
        return op

    def _p_mlayer(self, rng):
        name = self._pick(rng)
        k = rng.randrange(1, self.n + 1)
        qubits = rng.sample(range(self.n), k)
        if rng.random() < 0.5:
            qubits = sorted(qubits)
        if rng.random() < 0.15:
            qubits.insert(rng.randrange(len(qubits) + 1), rng.choice(qubits))   # a qubit read twice
        op = {"op": "mlayer", "slot": name, "qubits": qubits}
        obs = [(tuple(3 if i == q else 0 for i in range(self.n)), 0) for q in qubits]
        self._fault_coins(rng, op, self._count_undetermined(self.model[name], obs))
        return op

    # circuits ------------------------------------------------------------
    def _prog_item(self, rng, allow_random):
        if rng.random() < 0.3:
            k = rng.randrange(1, self.n + 1)
            qs = rng.sample(range(self.n), k)
            if rng.random() < 0.6:
                qs = sorted(qs)
            if rng.random() < 0.15:
                # a qubit read twice in one layer: the second reading repeats the first
                qs.insert(rng.randrange(len(qs) + 1), rng.choice(qs))
            return {"meas": qs}
        return {"gate": self._gate_spec(rng, allow_random=allow_random, nmax=3)}

    def _p_cnew(self, rng):
        names = ["c0", "c1"]
        name = rng.choice(names)
        allow_random = "c14" not in self.flags
        k = rng.randrange(1, 8)
        prog = [self._prog_item(rng, allow_random) for _ in range(k)]
        if "c14" in self.flags and not any("meas" in it for it in prog):
            prog.insert(rng.randrange(len(prog) + 1),
                        {"meas": sorted(rng.sample(range(self.n), rng.randrange(1, self.n + 1)))})
        return {"op": "cnew", "circ": name, "prog": prog}

    def _p_ctake(self, rng):
        if not self.circs:
            return None
        name = rng.choice(sorted(self.circs))
        return {"op": "ctake", "circ": name,
                "item": self._prog_item(rng, "c14" not in self.flags)}

    def _p_ccompile(self, rng):
        if not self.circs:
            return None
        return {"op": "ccompile", "circ": rng.choice(sorted(self.circs))}

    def _p_cfwd(self, rng):
        if not self.circs:
            return None
        cname = rng.choice(sorted(self.circs))
        name = self._pick(rng)
        op = {"op": "cfwd", "circ": cname, "slot": name}
        nm = sum(len(it["meas"]) for it in self.circs[cname]["prog"] if "meas" in it)
        self._fault_coins(rng, op, nm)
        return op

    def _p_cbwd(self, rng):
        if not self.circs:
            return None
        cname = rng.choice(sorted(self.circs))
        c = self.circs[cname]
        name = self._pick(rng)
        nm = sum(len(it["meas"]) for it in c["prog"] if "meas" in it)
        op = {"op": "cbwd", "circ": cname, "slot": name, "entropy": new_entropy(rng)}
        if nm == 0:
            op["record"] = "none"
            return op
        if self.model[name].rank > 0 and "rejected_op" not in self.cfg["faults"]:
            return None
        choices = ["own", "own", "true", "random"]
        if "rejected_op" in self.cfg["faults"]:
            choices += ["flip", "flip", "wronglen", "random"]
        kind = rng.choice(choices)
        op["record"] = kind
        if kind == "true" or kind == "flip":
            # a record consistent with the model's adjoint trajectory for this state,
            # built backwards: choose for every post-selection a possible outcome
            rec, det = self._possible_record(rng, c, self.model[name])
            if rec is None:
                op["record"] = "random"
                op["values"] = [rng.choice((1, -1)) for _ in range(nm)]
            else:
                if kind == "flip":
                    if not det:
                        op["record"] = "true"
                    else:
                        i = rng.choice(det)
                        rec[i] = -rec[i]
                op["values"] = rec
        elif kind == "random":
            op["values"] = [rng.choice((1, -1)) for _ in range(nm)]
        elif kind == "wronglen":
            k = rng.choice([max(0, nm - 1), nm + 1, nm + 2])
            op["values"] = [rng.choice((1, -1)) for _ in range(k)]
        return op

    def _possible_record(self, rng, c, model):
        """walk the adjoint trajectory in the model choosing possible outcomes; returns
        (record in forward order, indices whose outcome was determined)."""
        if model.rank > 0:
            return None, None
        flat = []
        for it in c["prog"]:
            if "meas" in it:
                for q in it["meas"]:
                    flat.append(q)
        rec = [None] * len(flat)
        det = []
        m = model.copy()
        pos = len(flat)
        for it, rg in zip(reversed(c["prog"]), reversed(c["ref"])):
            if "meas" in it:
                for q in reversed(it["meas"]):
                    pos -= 1
                    Z = (tuple(3 if i == q else 0 for i in range(self.n)), 0)
                    ev = m.eigenvalue(Z)
                    if ev is not None:
                        rec[pos] = ev
                        det.append(pos)
                    else:
                        rec[pos] = rng.choice((1, -1))
                        m, _ = m.project(Z, rec[pos])
            else:
                if rg is None:
                    return None, None
                m = m.apply_map(rg.bwd, rg.qubits)
        return rec, det

    # ------------------------------------------------------------ execution
    def apply(self, op):
        if op["op"] != "measure":
            self.last_meas = None   # a re-measurement must follow its measurement immediately
        res = getattr(self, "_a_" + op["op"])(op)
        self._check_all(op["op"])
        if "c05" in self.flags:
            self.nontrivial = self.nontrivial or bool(self.slots)
            self.trans.add(hash((op["op"], op.get("ctor"), op.get("fault"), op.get("via"), op.get("record"),
                                 tuple(sorted(m.rank for m in self.model.values() if m is not None)))) & 0xFFFFFFFFFFFF)
        return res

    def _a_new(self, op):
        pc, n = self.pc, self.n
        c = op["ctor"]
        seams.prepare_call(op)
        try:
            if c == "zero":
                st = pc.zero_state(n)
            elif c == "one":
                st = pc.one_state(n)
            elif c == "ghz":
                st = pc.ghz_state(n)
            elif c == "mixed":
                st = pc.maximally_mixed_state(n)
            elif c == "stab":
                gens = sut.parse_list(op["gens"])
                if any(len(g[0]) != n for g in gens):
                    raise Skip()
                if op.get("redundant"):
                    if not all(rm.hermitian(g) for g in gens):
                        raise Skip()
                    self.stats["rejected_op"] += 1
                    try:
                        st = pc.stabilizer_state(sut.mk_list(gens))
                        self.probes["redundant_generators_accepted"] += 1
                    except Exception:
                        return "rejected"
                elif op.get("form") == "strings":
                    st = pc.stabilizer_state(*[rm.pstr(g) for g in gens])
                    self.stats["config:state_from_strings"] += 1
                else:
                    st = pc.stabilizer_state(sut.mk_list(gens))
            elif c == "stab_state":
                if op["src"] not in self.slots:
                    raise Skip()
                st = pc.stabilizer_state(self.slots[op["src"]].stabilizers)
                self.stats["view_operand"] += 1
            elif c == "rcs":
                st = pc.random_clifford_state(n, op["r"])
            elif c == "rps":
                st = pc.random_pauli_state(n, op["r"])
            elif c == "rbs":
                st = pc.random_bit_state(n)
            elif c == "tostate":
                imgs = sut.parse_list(op["images"])
                if len(imgs) != 2 * n:
                    raise Skip()
                st = sut.mk_map(imgs).to_state(op["r"])
            else:
                raise Skip()
        except Skip:
            raise
        except Exception as e:
            if "c05" in self.flags:
                raise Violation("c05.constructor_raised", {"ctor": c, "exc": repr(e)})
            self.stats["env_error:new:%s" % type(e).__name__] += 1
            return "env_error"
        name = op["slot"]
        self.slots[name] = st
        self.model[name] = None
        ok = self._resync(name, "new:" + c)
        if ok and self.model[name].rank > 0:
            self.probes["mixed_state_created"] += 1
        return sut.strs(sut.tableau_rows(st)) + [int(st.r)] if ok else "dropped"

    def _a_rot(self, op):
        name, st = self._state(op)
        G = rm.pparse(op["G"])
        q = op["qubits"]
        if (q is None and len(G[0]) != self.n) or (q is not None and (len(G[0]) != len(q) or max(q) >= self.n)):
            raise Skip()
        self._env_call(name, "rot", lambda: st.rotate_by(sut.mk_pauli(G), self._qubits_mask(q)))
        if q is not None and name in self.model and self.model[name].rank > 0:
            self.probes["masked_update_on_mixed_state"] += 1
        return self._digest(name)

    def _a_tmap(self, op):
        name, st = self._state(op)
        imgs = sut.parse_list(op["images"])
        q = op["qubits"]
        m = self.n if q is None else len(q)
        if len(imgs) != 2 * m or (q is not None and max(q) >= self.n):
            raise Skip()
        self._env_call(name, "tmap", lambda: st.transform_by(sut.mk_map(imgs), self._qubits_mask(q)))
        if q is not None and name in self.model and self.model[name].rank > 0:
            self.probes["masked_update_on_mixed_state"] += 1
        return self._digest(name)

    def _p_tmapstate(self, rng):
        """a map obtained FROM a state (to_map(), its inverse, or diagonalize(state)) applied to a
        state: whatever a state carries in its destabilizer rows becomes images of a map."""
        return {"op": "tmapstate", "slot": self._pick(rng), "src": self._pick(rng),
                "how": rng.choice(["to_map", "to_map", "inverse", "diag_fwd", "diag_bwd"])}

    def _a_tmapstate(self, op):
        name, st = self._state(op)
        if op["src"] not in self.slots:
            raise Skip()
        src = self.slots[op["src"]]
        how = op["how"]

        def f():
            if how in ("to_map", "inverse"):
                m = src.to_map()
                if how == "inverse":
                    m = m.inverse()
                st.transform_by(m)
            else:
                if int(src.r) != 0:
                    raise Skip()
                circ = self.pc.diagonalize(src.copy())
                (circ.forward if how == "diag_fwd" else circ.backward)(st)
        self._env_call(name, "tmapstate", f)
        self.stats["config:map_from_state_applied"] += 1
        return self._digest(name)

    def _a_gate(self, op):
        name, st = self._state(op)
        seams.prepare_call(op)

        def f():
            gate, _ = self.build_gate(op["spec"])
            (gate.forward if op["dir"] == "fwd" else gate.backward)(st)
        try:
            self._env_call(name, "gate", f)
        except Skip:
            raise
        return self._digest(name)

    def _a_copy(self, op):
        if op["src"] not in self.slots:
            raise Skip()
        src = self.slots[op["src"]]
        try:
            if op.get("how") == "map_roundtrip":
                cp = src.to_map().to_state(int(src.r))
                self.stats["config:state_map_state"] += 1
            else:
                cp = src.copy()
        except Exception as e:
            self.stats["env_error:copy:%s" % type(e).__name__] += 1
            return "env_error"
        self.slots[op["slot"]] = cp
        self.model[op["slot"]] = None
        self._resync(op["slot"], "copy")
        return self._digest(op["slot"])

    def _a_setr(self, op):
        name, st = self._state(op)
        if not 0 <= op["r"] <= self.n:
            raise Skip()
        # the rank may legitimately arrive as a numpy integer (it does after a jitted kernel)
        rr = np.int64(op["r"]) if op.get("np_int") else op["r"]
        self._env_call(name, "setr", lambda: st.set_r(rr))
        return self._digest(name)

    def _digest(self, name):
        if name not in self.slots:
            return "dropped"
        st = self.slots[name]
        return [sut.strs(sut.tableau_rows(st)), int(st.r)]

    # -- measurement ------------------------------------------------------
    def _classify_measure(self, st, obs):
        """coverage accounting only (never an oracle): mirror of the kernel's pivot classes."""
        n = self.n
        rows = sut.tableau_rows(st)
        r = int(st.r)
        for P in obs[:1]:
            first = None
            for j in range(2 * n):
                if not rm.pcommute(rows[j][0], P[0]):
                    first = j
                    break
            if first is None:
                self.probes["pivot:none(identity-like)"] += 1
            elif first < r:
                self.probes["pivot:standby_stabilizer"] += 1
                anti_active = any(not rm.pcommute(rows[j][0], P[0]) for j in range(r, n))
                if anti_active:
                    self.probes["obs_anticommutes_standby_and_active"] += 1
            elif first < n:
                self.probes["pivot:active_stabilizer"] += 1
            elif first < n + r:
                self.probes["pivot:standby_destabilizer"] += 1
            else:
                self.probes["pivot:determined"] += 1

    def _do_measure_oracle(self, name, obs, out, log2prob, pre, ctx):
        own = "c06" if "c06" in self.flags else "c14"
        st = self.slots[name]
        try:
            outl = [int(x) for x in out]
        except Exception as e:
            raise Violation(own + ".outcome_format", {"out": repr(out)})
        if len(outl) != len(obs):
            raise Violation(own + ".outcome_length", {"want": len(obs), "got": len(outl)})
        m = pre.copy()
        und = 0
        prev_o = None
        for k, P in enumerate(obs):
            o = outl[k]
            if o not in (0, 1):
                raise Violation(own + ".outcome_range", {"k": k, "out": o})
            ev = m.eigenvalue(P)
            if ev is not None:
                if (0 if ev == 1 else 1) != o:
                    raise Violation(own + ".determined_value",
                                    {"k": k, "obs": rm.pstr(P), "want": 0 if ev == 1 else 1, "got": o, "ctx": ctx})
                if ev == -1:
                    self.probes["deterministic_outcome_minus"] += 1
            else:
                und += 1
                before = m.rank
                m, _ = m.project(P, 1 if o == 0 else -1)
                if m.rank < before:
                    self.probes["rank_reduced_by_measurement"] += 1
                self.stats["coins_observed"] += 1
                if self._fair:
                    self.stats["fair_coins"] += 1
                    self.stats["fair_ones"] += o
                    # strata for the batch-level fairness / independence oracles
                    pos = "first" if und == 1 else "later"
                    self.stats["fair_coins:" + pos] += 1
                    self.stats["fair_ones:" + pos] += o
                    rk = "rank_reducing" if m.rank < before else "rank_keeping"
                    self.stats["fair_coins:" + rk] += 1
                    self.stats["fair_ones:" + rk] += o
                    if prev_o is not None:
                        self.stats["fair_pair:%d%d" % (prev_o, o)] += 1
                    prev_o = o
        if float(log2prob) != -float(und):
            raise Violation(own + ".log2prob", {"want": -und, "got": float(log2prob), "ctx": ctx})
        try:
            post = rm.alpha(st.gs, st.ps, st.r, self.n)
        except rm.InvariantBroken as e:
            raise Violation(own + ".post_not_a_state", {"what": e.what, "ctx": ctx})
        except Exception as e:
            raise Violation(own + ".post_not_a_state", {"what": repr(e), "ctx": ctx})
        if post.rank != m.rank:
            raise Violation(own + ".post_rank", {"want": m.rank, "got": post.rank, "ctx": ctx})
        if post != m:
            raise Violation(own + ".post_state", {"ctx": ctx})
        self.model[name] = post
        self.states.add(_hash_state(post))
        if post.rank == 0 and pre.rank == self.n and self.n > 0:
            self.probes["rank_n_to_0_in_one_call"] += 1
        self.oracle_steps += 1
        self.nontrivial = True
        self.trans.add(hash((pre.rank, len(obs), und, tuple(outl), ctx)) & 0xFFFFFFFFFFFF)
        return und

    def _a_measure(self, op):
        name, st = self._state(op)
        n = self.n
        via = op["via"]
        if via == "ownrows":
            lo, hi = op["rows"]
            if not (0 <= lo < hi <= 2 * n) or (lo < n < hi):
                raise Skip()
            obs = sut.tableau_rows(st)[lo:hi]
            if not all(rm.hermitian(p) for p in obs):
                raise Skip()
            obj = st[lo:hi]
            self.probes["observables_are_own_tableau_rows"] += 1
        elif via == "state":
            if op["other"] not in self.slots:
                raise Skip()
            ost = self.slots[op["other"]]
            obs = sut.tableau_rows(ost)[int(ost.r):n]
            obj = ost
            if not all(rm.hermitian(p) for p in obs):
                raise Skip()
        else:
            obs = sut.parse_list(op["obs"])
            if any(len(p[0]) != n for p in obs) or (not obs and via != "list"):
                raise Skip()
            for i in range(len(obs)):
                for j in range(i):
                    if not rm.pcommute(obs[i][0], obs[j][0]):
                        raise Skip()
            if via == "list":
                obj = sut.mk_list(obs, n)
                if not obs:
                    self.probes["empty_observable_list"] += 1
            elif via == "strings":
                if not obs or not all(rm.hermitian(p) for p in obs):
                    raise Skip()
                ss = [rm.pstr(p) for p in obs]
                if not op.get("plus"):
                    ss = [x[1:] if x.startswith("+") else x for x in ss]
                obj = self.pc.paulis(ss) if len(ss) != 1 or op.get("plus") else self.pc.paulis(*ss)
                self.stats["config:observables_from_strings"] += 1
            else:
                # view operand: the same observables reached through strided / fancy selection
                junk = (tuple([1] * n), 1)
                big = []
                for p in obs:
                    big += [p, junk]
                bl = sut.mk_list(big)
                if via == "stride":
                    obj = bl[::2]
                elif via == "index":
                    obj = bl[np.arange(0, 2 * len(obs), 2)]
                else:
                    mk = np.zeros(2 * len(obs), dtype=bool)
                    mk[::2] = True
                    obj = bl[mk]
        if via not in ("list", "strings"):
            self.stats["view_operand"] += 1
        pre = self.model[name]
        owned = "c06" in self.flags
        self._fair = op.get("fault") == "fair"
        self.stats["coin_force" if op.get("fault") == "force" else "coin_fair"] += 1
        if "remeasure" in op:
            self.stats["remeasure"] += 1
        self._classify_measure(st, obs)
        seams.prepare_call(op)
        try:
            out, l2p = st.measure(obj)
        except Exception as e:
            if owned:
                raise Violation("c06.exception", {"exc": repr(e), "obs": op.get("obs")})
            self.stats["env_error:measure:%s" % type(e).__name__] += 1
            self._resync(name, "measure")
            return "env_error"
        if owned:
            und = self._do_measure_oracle(name, obs, out, l2p, pre, "measure:" + via)
            if op.get("remeasure") in ("same", "sub", "prod", "neg") and und != 0:
                # cannot happen if the previous oracle passed; kept as an explicit statement
                raise Violation("c06.remeasure_not_deterministic", {"variant": op["remeasure"]})
            self.last_meas = (name, obs)
            if op.get("fault") == "force" and seams.MODE == "INTERP":
                drawn = seams.COIN_TAPE.drawn
                if drawn == op["coins"][:len(drawn)] and drawn:
                    self.probes["forced_pattern_consumed"] += 1
        else:
            self._resync(name, "measure")
            self.nontrivial = True
        return [[int(x) for x in out], float(l2p), self._digest(name)]

    def _a_mlayer(self, op):
        name, st = self._state(op)
        n = self.n
        q = op["qubits"]
        if max(q) >= n:
            raise Skip()
        obs = [(tuple(3 if i == x else 0 for i in range(n)), 0) for x in q]
        pre = self.model[name]
        owned = "c14" in self.flags
        self._fair = op.get("fault") == "fair"
        self.stats["coin_force" if op.get("fault") == "force" else "coin_fair"] += 1
        seams.prepare_call(op)
        try:
            layer = self.pc.MeasureLayer(*q, N=n)
            layer.forward(st)
            res, l2p = layer.result, layer.log2prob
        except Exception as e:
            if owned:
                raise Violation("c14.exception", {"exc": repr(e), "op": "mlayer"})
            self.stats["env_error:mlayer:%s" % type(e).__name__] += 1
            self._resync(name, "mlayer")
            return "env_error"
        if owned:
            try:
                vals = [int(v) for v in res]
            except Exception:
                raise Violation("c14.record_format", {"res": repr(res)})
            if any(v not in (1, -1) for v in vals):
                raise Violation("c14.record_values", {"res": vals})
            out = [0 if v == 1 else 1 for v in vals]
            if pre.rank > 0:
                self.probes["measure_layer_on_mixed_state"] += 1
            self._do_measure_oracle(name, obs, out, l2p, pre, "mlayer")
        else:
            self._resync(name, "mlayer")
            self.nontrivial = True
        return [[int(v) for v in res], float(l2p), self._digest(name)]

    def _others_snapshot(self, name):
        return {k: sut.raw_state(v) for k, v in self.slots.items() if k != name}

    def _a_postselect(self, op):
        name, st = self._state(op)
        P = rm.pparse(op["P"])
        if len(P[0]) != self.n or not rm.hermitian(P):
            raise Skip()
        b = op["b"]
        pre = self.model[name]
        owned = "c14" in self.flags
        before = sut.raw_state(st)
        if pre.rank > 0:
            # documented rejection: only pure states are supported
            self.stats["rejected_op"] += 1
            others = self._others_snapshot(name)
            try:
                st.postselect(sut.mk_pauli(P), b)
            except ValueError:
                if owned and sut.raw_state(st) != before:
                    raise Violation("c14.rejected_postselect_changed_state", {})
                if owned and others != self._others_snapshot(name):
                    raise Violation("c14.rejected_op_changed_other_object", {})
                self._resync(name, "postselect_rejected")
                return "rejected"
            except Exception as e:
                if owned:
                    raise Violation("c14.exception", {"exc": repr(e), "op": "postselect(mixed)"})
                self._resync(name, "postselect_rejected")
                return "env_error"
            # no exception on a mixed state: the property only speaks about pure states
            self._resync(name, "postselect_mixed")
            return "accepted_on_mixed"
        arg = sut.mk_pauli(P)
        if op.get("ownrow") is not None:
            j = op["ownrow"]
            if not 0 <= j < 2 * self.n or sut.tableau_rows(st)[j] != P:
                raise Skip()
            arg = st[j]
            self.stats["view_operand"] += 1
            self.probes["postselect_on_own_tableau_row"] += 1
        try:
            prob = st.postselect(arg, b)
        except Exception as e:
            if owned:
                raise Violation("c14.exception", {"exc": repr(e), "op": "postselect"})
            self.stats["env_error:postselect:%s" % type(e).__name__] += 1
            self._resync(name, "postselect")
            return "env_error"
        if owned:
            want_state, want_p = pre.project(P, 1 if b == 0 else -1)
            if float(prob) != want_p:
                raise Violation("c14.postselect_probability",
                                {"P": op["P"], "b": b, "want": want_p, "got": float(prob)})
            if want_p == 0.0:
                self.stats["rejected_op"] += 1
                self.probes["impossible_postselection"] += 1
                if sut.raw_state(st) != before:
                    raise Violation("c14.impossible_postselect_changed_state", {"P": op["P"], "b": b})
            else:
                try:
                    post = rm.alpha(st.gs, st.ps, st.r, self.n)
                except rm.InvariantBroken as e:
                    raise Violation("c14.post_not_a_state", {"what": e.what, "ctx": "postselect"})
                if post != want_state:
                    raise Violation("c14.postselect_state", {"P": op["P"], "b": b})
                self.model[name] = post
            self.oracle_steps += 1
            self.nontrivial = True
            self.trans.add(hash(("ps", want_p, b)) & 0xFFFFFFFFFFFF)
        else:
            self._resync(name, "postselect")
        return [float(prob), self._digest(name)]

    # -- circuits ---------------------------------------------------------
    def _take_item(self, c, item):
        pc = self.pc
        try:
            if "meas" in item:
                if max(item["meas"]) >= self.n:
                    raise Skip()
                c["obj"].measure(*item["meas"])
                c["prog"].append(item)
                c["ref"].append(None)
            else:
                gate, ref = self.build_gate(item["gate"])
                c["obj"].take(gate)
                c["prog"].append(item)
                c["ref"].append(ref)
        except Skip:
            raise
        except Exception as e:
            if "c14" in self.flags:
                raise Violation("c14.exception", {"exc": repr(e), "op": "take", "item": item})
            self.stats["env_error:take:%s" % type(e).__name__] += 1
            raise Skip()

    def _a_cnew(self, op):
        c = {"obj": self.pc.Circuit(self.n), "prog": [], "ref": [], "last": None, "l2p_prev": 0.0}
        for item in op["prog"]:
            try:
                self._take_item(c, item)
            except Skip:
                continue
        self.circs[op["circ"]] = c
        return len(c["prog"])

    def _a_ctake(self, op):
        if op["circ"] not in self.circs:
            raise Skip()
        c = self.circs[op["circ"]]
        self._take_item(c, op["item"])
        if c.get("compiled"):
            # documented: compiled information is not updated by later additions; until the
            # next compile() the circuit is *stale* and its runs are environment steps (5.5)
            c["stale"] = True
            self.probes["take_after_compile(stale)"] += 1
        return len(c["prog"])

    def _a_ccompile(self, op):
        if op["circ"] not in self.circs:
            raise Skip()
        c = self.circs[op["circ"]]
        if any(r is None and "gate" in it for it, r in zip(c["prog"], c["ref"])):
            raise Skip()  # random gates cannot be compiled
        try:
            c["obj"].compile()
            c["compiled"] = True
            c["stale"] = False
            self.stats["config:compiled"] += 1
        except Exception as e:
            if "c14" in self.flags:
                raise Violation("c14.exception", {"exc": repr(e), "op": "compile"})
            self.stats["env_error:compile:%s" % type(e).__name__] += 1
        return "ok"

    def _has_meas(self, c):
        return any("meas" in it for it in c["prog"])

    def _a_cfwd(self, op):
        name, st = self._state(op)
        if op["circ"] not in self.circs:
            raise Skip()
        c = self.circs[op["circ"]]
        circ = c["obj"]
        pre = self.model[name]
        owned = "c14" in self.flags and not c.get("stale")
        nm = sum(len(it["meas"]) for it in c["prog"] if "meas" in it)
        self._fair = op.get("fault") == "fair"
        self.stats["coin_force" if op.get("fault") == "force" else "coin_fair"] += 1
        before_len = len(circ.measure_result)
        before_l2p = float(circ.log2prob)
        seams.prepare_call(op)
        try:
            circ.forward(st)
        except Exception as e:
            if owned:
                raise Violation("c14.exception", {"exc": repr(e), "op": "circuit.forward"})
            self.stats["env_error:cfwd:%s" % type(e).__name__] += 1
            self._resync(name, "cfwd")
            return "env_error"
        if not owned:
            self._resync(name, "cfwd")
            self.nontrivial = True
            rec = list(circ.measure_result)[len(circ.measure_result) - nm:] if nm else []
            c["last"] = [int(v) for v in rec]
            return [c["last"], self._digest(name)]
        # --- C14 oracle: the model trajectory in PROGRAM order with the reported outcomes
        mr = list(circ.measure_result)
        if len(mr) < nm:
            raise Violation("c14.record_length", {"want_at_least": nm, "got": len(mr)})
        rec = mr[len(mr) - nm:] if nm else []
        try:
            rec = [int(v) for v in rec]
        except Exception:
            raise Violation("c14.record_format", {"rec": repr(rec)})
        if any(v not in (1, -1) for v in rec):
            raise Violation("c14.record_values", {"rec": rec})
        m = pre.copy()
        und = 0
        pos = 0
        for it, rg in zip(c["prog"], c["ref"]):
            if "meas" in it:
                for q in it["meas"]:
                    Z = (tuple(3 if i == q else 0 for i in range(self.n)), 0)
                    v = rec[pos]
                    ev = m.eigenvalue(Z)
                    if ev is not None:
                        if ev != v:
                            raise Violation("c14.forward_determined_value",
                                            {"pos": pos, "qubit": q, "want": ev, "got": v})
                        if pos > 0:
                            self.probes["determined_midcircuit_outcome"] += 1
                    else:
                        und += 1
                        m, _ = m.project(Z, v)
                        if self._fair:
                            self.stats["fair_coins"] += 1
                            self.stats["fair_ones"] += (0 if v == 1 else 1)
                    pos += 1
            else:
                m = m.apply_map(rg.fwd, rg.qubits)
        l2p = float(circ.log2prob)
        if nm and not (l2p == -float(und) or l2p == before_l2p - float(und)):
            raise Violation("c14.forward_log2prob", {"want": -und, "got": l2p, "before": before_l2p})
        try:
            post = rm.alpha(st.gs, st.ps, st.r, self.n)
        except rm.InvariantBroken as e:
            raise Violation("c14.post_not_a_state", {"what": e.what, "ctx": "circuit.forward"})
        if post.rank != m.rank:
            raise Violation("c14.forward_rank", {"want": m.rank, "got": post.rank})
        if post != m:
            raise Violation("c14.forward_state", {})
        self.model[name] = post
        self.states.add(_hash_state(post))
        c["last"] = rec
        if pre.rank > 0 and nm:
            self.probes["circuit_forward_on_mixed_state"] += 1
        self.oracle_steps += 1
        self.nontrivial = True
        self.trans.add(hash(("cfwd", pre.rank, nm, und, tuple(rec))) & 0xFFFFFFFFFFFF)
        return [rec, l2p, self._digest(name)]

    def _a_cbwd(self, op):
        name, st = self._state(op)
        if op["circ"] not in self.circs:
            raise Skip()
        c = self.circs[op["circ"]]
        circ = c["obj"]
        pre = self.model[name]
        owned = "c14" in self.flags and not c.get("stale")
        nm = sum(len(it["meas"]) for it in c["prog"] if "meas" in it)
        kind = op["record"]
        if any(r is None and "gate" in it for it, r in zip(c["prog"], c["ref"])) and owned:
            raise Skip()
        if nm and pre.rank > 0 and owned:
            # post-selection is documented for pure states only
            raise Skip()
        if kind in ("own", "none"):
            arg = None
            rec = c["last"]
            if nm and rec is not None and len(rec) != nm:
                raise Skip()  # measurements were added after the last forward run: the stored record is stale
        else:
            arg = list(op["values"])
            rec = arg
        seams.prepare_call(op)
        raised = None
        rec_before = (list(circ.measure_result), float(circ.log2prob))
        try:
            if arg is None:
                circ.backward(st)
            else:
                circ.backward(st, measure_result=arg)
        except ValueError as e:
            raised = e
        except Exception as e:
            if owned:
                raise Violation("c14.exception", {"exc": repr(e), "op": "circuit.backward"})
            self.stats["env_error:cbwd:%s" % type(e).__name__] += 1
            self._resync(name, "cbwd")
            return "env_error"
        if not owned:
            if raised is not None:
                self.stats["rejected_op"] += 1
            self._resync(name, "cbwd")
            return ["raised" if raised else "ok", self._digest(name)]
        # --- C14 oracle: adjoint of the recorded trajectory
        if (list(circ.measure_result), float(circ.log2prob)) != rec_before:
            raise Violation("c14.backward_modified_record", {"kind": kind, "raised": raised is not None})
        if nm == 0:
            if raised is not None:
                raise Violation("c14.exception", {"exc": repr(raised), "op": "unitary backward"})
            m = pre.copy()
            for rg in reversed(c["ref"]):
                m = m.apply_map(rg.bwd, rg.qubits)
            want_raise = False
        else:
            if rec is None or (arg is not None and len(arg) != nm):
                want_raise = True
                self.stats["rejected_op"] += 1
                self.probes["backward_missing_or_wrong_length_record"] += 1
                m = None
            else:
                m = pre.copy()
                pos = nm
                want_raise = False
                for it, rg in zip(reversed(c["prog"]), reversed(c["ref"])):
                    if "meas" in it:
                        for q in reversed(it["meas"]):
                            pos -= 1
                            Z = (tuple(3 if i == q else 0 for i in range(self.n)), 0)
                            m2, p = m.project(Z, rec[pos])
                            if p == 0.0:
                                want_raise = True
                                break
                            m = m2
                        if want_raise:
                            break
                    else:
                        m = m.apply_map(rg.bwd, rg.qubits)
                if want_raise:
                    self.stats["rejected_op"] += 1
                    self.probes["backward_impossible_record"] += 1
        if want_raise:
            if raised is None:
                raise Violation("c14.backward_accepted_impossible_record",
                                {"record": rec, "kind": kind})
            self._resync(name, "cbwd_rejected")
            self.oracle_steps += 1
            self.nontrivial = True
            return "rejected"
        if raised is not None:
            raise Violation("c14.backward_rejected_possible_record",
                            {"record": rec, "kind": kind, "exc": repr(raised)})
        try:
            post = rm.alpha(st.gs, st.ps, st.r, self.n)
        except rm.InvariantBroken as e:
            raise Violation("c14.post_not_a_state", {"what": e.what, "ctx": "circuit.backward"})
        if post != m:
            raise Violation("c14.backward_state", {"record": rec, "kind": kind})
        self.model[name] = post
        self.oracle_steps += 1
        self.nontrivial = True
        self.probes["backward_with_record:" + kind] += 1
        self.trans.add(hash(("cbwd", nm, kind)) & 0xFFFFFFFFFFFF)
        return ["ok", self._digest(name)]
