#!/venv/bin/python
"""Regenerates MANIFEST.json from one table (keeps it valid at all times)."""
import json, os
VERIF = os.path.dirname(os.path.dirname(os.path.abspath(__file__)))
PY = "/venv/bin/python"

CLAIMED = {
 "C05": ("Seeded simulation of histories of public state-changing operations (constructors, rotations, map transforms, gates, "
         "measurements with dictated coin schedules, post-selections, circuits with measurement layers, copies, rejected "
         "operations); after every call every live state must pass the tableau invariant and the abstraction function "
         "(whole stabilizer group, -1 not a member, rank 2^r).", "8/C05"),
 "C06": ("Seeded simulation of measurement histories on pure and mixed signed states with the coin schedule owned by the "
         "simulator (seeded or dictated per call, JIT and interpreted kernels); every call is judged against a whole-group "
         "reference model: determined values, log2-probability, projected post-state and rank, re-measurement, batch fairness.", "8/C06"),
 "C14": ("Seeded simulation of quantum trajectories: circuits interleaving deterministic gates and measurement layers, run "
         "forward under dictated coin schedules and backward with own / supplied / impossible / malformed records; "
         "post-selection of signed Paulis; judged against a program-order reference trajectory.", "8/C14"),
 "C09": ("Model-based stateful simulation of circuit assembly histories (take, compose, copy, compile at gate/layer/circuit "
         "level, rejected takes) with forward compared against gate-by-gate application and an independent reference circuit.", "8/C09"),
 "C10": ("Same world as C09; every gate, layer and circuit in every cache configuration reached by the history must satisfy "
         "backward(forward(x)) == x and forward(backward(x)) == x exactly.", "8/C10"),
 "C17": ("Interleaving search over a population of objects that may share memory, with scribble faults: copies must be "
         "faithful and disjoint, and after every step every object that may not alias the step's write-set must be bitwise unchanged.", "8/C17"),
 "C19": ("Seeded simulation of group sampling and classical-shadow generators resumed under a scheduler that interleaves "
         "foreground operations; per-sample membership/sign, per-snapshot validity/overlap/basis oracles and batch chi-square.", "8/C19"),
 "C16": ("The three RNG streams are owned by the simulator; every sample is checked for validity and batches are tested for "
         "uniformity (chi-square at false-alarm level 1e-9 per statistic) under two seeding regimes; resampling judged behaviourally.", "8/C16"),
}
NA = {
 "C01": "pure function of two immutable operands; no schedule, RNG, fault or interleaving for a simulator to control (DESIGN 8/C01)",
 "C02": "deterministic function of (operand, generator, mask); the operand is fully visible, sequences are folds (DESIGN 8/C02)",
 "C03": "pure function of (operand, map, mask) (DESIGN 8/C03)",
 "C04": "compose/inverse/identity return new values from their arguments only (DESIGN 8/C04)",
 "C07": "pure queries of (state, observable); their side-effect freedom is checked under C17 (DESIGN 8/C07)",
 "C08": "pure query of (state, region) (DESIGN 8/C08)",
 "C11": "finite constant tables; only enumeration decides them, which is not this technique (DESIGN 8/C11)",
 "C12": "pure conversions/constructors; RNG-dependent constructors are exercised for validity under C16 (DESIGN 8/C12)",
 "C13": "differential equality of deterministic functions of explicit inputs; nothing for a simulator to schedule (DESIGN 8/C13)",
 "C15": "pure algebra on explicit operands (DESIGN 8/C15)",
 "C18": "deterministic constructions from explicit inputs (DESIGN 8/C18)",
 "C20": "pure conversions of explicit inputs (DESIGN 8/C20)",
}
PENDING = "check under construction in this session (claimed in DESIGN.md section 8; will move to checks when its machinery is committed)"

def main():
    built = [p for p in sorted(CLAIMED) if os.path.exists(os.path.join(VERIF, "sim", "props", p.lower() + ".py"))
             and not os.path.exists(os.path.join(VERIF, "sim", "props", p.lower() + ".pending"))]
    checks = []
    for p in built:
        text, ref = CLAIMED[p]
        checks.append({
            "property_id": p,
            "quick_cmd": "%s sim/cli.py check %s --tier quick" % (PY, p),
            "thorough_cmd": "%s sim/cli.py check %s --tier thorough" % (PY, p),
            "evidence_file": "evidence/%s.json" % p,
            "replay_cmd_template": "%s sim/cli.py replay {path}" % PY,
            "engine": "pyclifford-dst",
            "level_claimed": {"category": "exploration", "text": text + " Sampling, not enumeration: a clean batch is evidence, not proof.",
                              "design_ref": "DESIGN.md section " + ref},
            "level_note": ("Trusted base: the harness reference model (letter-tuple Paulis, whole-group state dictionary; validated against dense "
                           "numpy matrices by setup_cmd), numba/numpy/torch RNG seeding, CPython. Assumes the explored N<=6, <=40-step histories "
                           "are representative; statistical oracles have a stated false-alarm level of 1e-9 per statistic."),
            "technique": "deterministic simulation with fault injection (seeded schedule/fault search, reference-model oracle, replay + shrinking)",
        })
    na = [{"property_id": k, "reason": v} for k, v in sorted(NA.items())]
    for p in sorted(CLAIMED):
        if p not in built:
            na.append({"property_id": p, "reason": PENDING})
    na.sort(key=lambda d: d["property_id"])
    man = {
        "version": 1,
        "setup_cmd": "%s sim/cli.py selftest model" % PY,
        "hooks": {"guard": "PYCLIFFORD_VERIF", "enable": "no source hooks: the seams are numba/numpy/torch seeding from harness-side kernels, "
                  "NUMBA_DISABLE_JIT=1 with a monkeypatched numpy.random.randint(2) coin tape, and duck-typed circuit proxies; checks import "
                  "the working tree through VERIF_REPO (default /repo) at sys.path[0]",
                  "baseline_off_cmd": "cd /repo && /venv/bin/python -m pytest -ra -q -p no:cacheprovider --timeout=900 --continue-on-collection-errors",
                  "source_commits": [], "add_only": True},
        "engines": [{"name": "pyclifford-dst", "path": "sim/", "serves_properties": built,
                     "kind_free_text": "custom deterministic simulator: seeded scheduler over operation/fault histories, three RNG seams, coin forcing, "
                     "whole-group reference model, ddmin shrinking, replay files, forked 16-way batches"}],
        "checks": checks,
        "not_applicable": na,
        "notes": "See DESIGN.md. known_findings.json lists open/fixed findings. Exit codes: 0 held, 1 VIOLATION, 2 harness error.",
    }
    with open(os.path.join(VERIF, "MANIFEST.json"), "w") as f:
        json.dump(man, f, indent=1)
    print("built:", built)

if __name__ == "__main__":
    main()
