#!/venv/bin/python
"""Harness self-tests: seams, determinism, sensitivity (mutant corpus)."""
import glob
import json
import os
import pickle
import shutil
import subprocess
import sys
import tempfile
import time

HERE = os.path.dirname(os.path.abspath(__file__))
VERIF = os.path.dirname(HERE)
sys.path.insert(0, HERE)
PY = sys.executable


def st_seams():
    """seam closure: after seed_all(e) the measurement outcomes are a function of e only,
    both outcomes occur over seeds, and (reported, not required) nb_coins predicts them."""
    import numpy as np
    import seams
    import sut
    pc = sut.load()
    n = 5
    obs = pc.paulis(["IIIIZ", "IIIZI", "IIZII", "IZIII", "ZIIII"])
    seen = set()
    agree = 0
    for e in range(200):
        outs = []
        for rep in range(2):
            st = pc.maximally_mixed_state(n)
            seams.seed_all(e)
            out, l2p = st.measure(obs)
            outs.append(tuple(int(x) for x in out))
        if outs[0] != outs[1]:
            print("SEAM FAILURE: same entropy word, different outcomes", e, outs)
            return 2
        seen.add(outs[0])
        a, _, _ = seams.subseeds(e)
        pred = tuple(seams.nb_coins(a, n))
        if pred == outs[0] or tuple(1 - x for x in pred) == outs[0]:
            agree += 1
    if len(seen) < 20:
        print("SEAM FAILURE: outcomes do not vary with the entropy word", len(seen))
        return 2
    # numpy-level and python-level samplers
    for e in range(50):
        vals = []
        for rep in range(2):
            seams.seed_all(e)
            m = pc.random_clifford_map(3)
            s = pc.zero_state(3).sample(4)
            vals.append((m.gs.tobytes(), m.ps.tobytes(), s.gs.tobytes(), s.ps.tobytes()))
        if vals[0] != vals[1]:
            print("SEAM FAILURE: random_clifford_map/sample not a function of the entropy word")
            return 2
    print("seams selftest ok: 200 entropy words reproducible, %d distinct outcome patterns, "
          "coin prediction matched %d/200" % (len(seen), agree))
    return 0


def run_tranche(pid, mode, seed, lo, hi, workers, hashseed, repo=None, tier="quick"):
    import cli
    env = cli.child_env(mode)
    env["PYTHONHASHSEED"] = str(hashseed)
    if repo:
        env["VERIF_REPO"] = repo
    d = tempfile.mkdtemp(prefix="verif-st-")
    out = os.path.join(d, "o.pkl")
    try:
        rc = subprocess.call([PY, os.path.join(HERE, "cli.py"), "tranche", pid, "--mode", mode, "--seed", str(seed),
                              "--tier", tier, "--lo", str(lo), "--hi", str(hi), "--workers", str(workers),
                              "--out", out], env=env, cwd=VERIF)
        if rc != 0:
            return None
        with open(out, "rb") as f:
            return pickle.load(f)
    finally:
        shutil.rmtree(d, ignore_errors=True)


def st_determinism(args):
    """N seeds x 2 executions in fresh interpreters, different PYTHONHASHSEED, different
    worker counts, both configurations; per-run digests must agree."""
    props = args or ["C05", "C06", "C14", "C09", "C10", "C17", "C19"]
    nruns = int(os.environ.get("VERIF_DET_RUNS", "400"))
    bad = 0
    for pid in props:
        if not os.path.exists(os.path.join(HERE, "props", pid.lower() + ".py")):
            continue
        for mode in ("INTERP", "JIT"):
            for seed in (0, 1, 7):
                a = run_tranche(pid, mode, seed, 0, nruns, 1 if mode == "INTERP" else 4, 0)
                b = run_tranche(pid, mode, seed, 0, nruns, 16, 12345)
                if a is None or b is None:
                    print("determinism: tranche failed", pid, mode, seed)
                    bad += 1
                    continue
                diff = [i for i, (x, y) in enumerate(zip(a["digests"], b["digests"])) if x != y]
                print("determinism %s %s seed=%d: %d runs, %d diverging" % (pid, mode, seed, len(a["digests"]), len(diff)))
                if diff:
                    bad += 1
                    print("  first diverging run indices:", diff[:10])
    return 0 if bad == 0 else 2


def st_sensitivity(args):
    """apply each mutant of /verif/mutants (and /verif/seeded/*/patch.diff) to a scratch copy
    of the repo, run the owning quick check against it, expect a VIOLATION."""
    import cli
    which = set(args)
    items = []
    for p in sorted(glob.glob(os.path.join(VERIF, "mutants", "*.patch"))):
        name = os.path.basename(p)[:-6]
        prop = name.split("_")[0].upper()
        items.append((name, prop, p))
    # (the seeded changes have their own, more complete re-check: seeded/recheck_all.py)
    for d in (sorted(glob.glob(os.path.join(VERIF, "seeded", "*"))) if os.environ.get("VERIF_SENS_SEEDED") else []):
        meta = os.path.join(d, "meta.json")
        if os.path.exists(meta):
            m = json.load(open(meta))
            items.append(("seeded/" + os.path.basename(d), m["property"], os.path.join(d, "patch.diff")))
    results = {}
    repo = os.environ.get("VERIF_REPO", "/repo")
    for name, prop, patch in items:
        if which and name not in which and prop not in which:
            continue
        scratch = tempfile.mkdtemp(prefix="verif-mut-")
        try:
            dst = os.path.join(scratch, "repo")
            subprocess.check_call(["git", "-C", repo, "worktree", "add", "--detach", "-f", dst, "HEAD"],
                                  stdout=subprocess.DEVNULL, stderr=subprocess.DEVNULL)
            rc = subprocess.call(["git", "-C", dst, "apply", patch])
            if rc != 0:
                results[name] = "PATCH-FAILED"
                continue
            env = dict(os.environ)
            env["VERIF_REPO"] = dst
            env["VERIF_EVIDENCE_DIR"] = scratch
            runs = os.environ.get("VERIF_SENS_RUNS", "3000")
            t0 = time.time()
            p = subprocess.run([PY, os.path.join(HERE, "cli.py"), "check", prop, "--tier", "quick"] +
                               (["--runs", runs] if prop != "C16" else []),
                               env=env, cwd=VERIF, capture_output=True, text=True)
            caught = p.returncode == 1 and "VIOLATION property=%s" % prop in p.stdout
            oracles = sorted(set(l.split()[0].split("=")[1] for l in p.stdout.splitlines() if l.strip().startswith("oracle=")))
            results[name] = ("CAUGHT " + ",".join(oracles)) if caught else ("MISSED rc=%d" % p.returncode)
            print("%-40s %-4s %s (%.0fs)" % (name, prop, results[name], time.time() - t0), flush=True)
        finally:
            subprocess.call(["git", "-C", repo, "worktree", "remove", "--force", dst],
                            stdout=subprocess.DEVNULL, stderr=subprocess.DEVNULL)
            shutil.rmtree(scratch, ignore_errors=True)
    mpath = os.path.join(VERIF, "mutants", "matrix.json")
    merged = {}
    if which and os.path.exists(mpath):
        merged = json.load(open(mpath))
    merged.update(results)
    with open(mpath, "w") as f:
        json.dump(merged, f, indent=1, sort_keys=True)
    return 0 if all(v.startswith("CAUGHT") for v in results.values()) else 1


def st_equivalence(args):
    """over-strictness test: behaviour-preserving refactorings of the repository
    (mutants/equivalent/*.patch) must leave every named check quiet (exit 0)."""
    import re
    results = {}
    repo = os.environ.get("VERIF_REPO", "/repo")
    for patch in sorted(glob.glob(os.path.join(VERIF, "mutants", "equivalent", "*.patch"))):
        name = os.path.basename(patch)[:-6]
        if args and name not in args:
            continue
        props = ["C" + x for x in re.findall(r"c(\d\d)", name.split("_")[1])]
        scratch = tempfile.mkdtemp(prefix="verif-eq-")
        dst = os.path.join(scratch, "repo")
        try:
            subprocess.check_call(["git", "-C", repo, "worktree", "add", "--detach", "-f", dst, "HEAD"],
                                  stdout=subprocess.DEVNULL, stderr=subprocess.DEVNULL)
            if subprocess.call(["git", "-C", dst, "apply", patch]) != 0:
                results[name] = "PATCH-FAILED"
                continue
            env = dict(os.environ, VERIF_REPO=dst, VERIF_EVIDENCE_DIR=scratch)
            for prop in props:
                t0 = time.time()
                p = subprocess.run([PY, os.path.join(HERE, "cli.py"), "check", prop, "--tier", "quick"],
                                   env=env, cwd=VERIF, capture_output=True, text=True)
                key = "%s/%s" % (name, prop)
                results[key] = "QUIET" if p.returncode == 0 else ("ALARM rc=%d %s" % (
                    p.returncode, " ".join(l.strip() for l in p.stdout.splitlines() if "oracle=" in l or "HARNESS" in l)[:300]))
                print("%-55s %s (%.0fs)" % (key, results[key], time.time() - t0), flush=True)
        finally:
            subprocess.call(["git", "-C", repo, "worktree", "remove", "--force", dst],
                            stdout=subprocess.DEVNULL, stderr=subprocess.DEVNULL)
            shutil.rmtree(scratch, ignore_errors=True)
    with open(os.path.join(VERIF, "mutants", "equivalent", "matrix.json"), "w") as f:
        json.dump(results, f, indent=1, sort_keys=True)
    return 0 if all(v == "QUIET" for v in results.values()) else 1


if __name__ == "__main__":
    what = sys.argv[1]
    if what == "equivalence":
        sys.exit(st_equivalence(sys.argv[2:]))
    if what == "seams":
        sys.exit(st_seams())
    if what == "determinism":
        sys.exit(st_determinism(sys.argv[2:]))
    if what == "sensitivity":
        sys.exit(st_sensitivity(sys.argv[2:]))
    print("unknown selftest", what)
    sys.exit(2)
