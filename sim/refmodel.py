"""Reference models.  Shares no arithmetic with the package: Pauli operators are letter
tuples with a power of i, products go through the single-qubit multiplication table,
a stabilizer state is the dictionary of ALL elements of its stabilizer group.

Letters: 0=I 1=X 2=Y 3=Z.   A RefPauli is (letters: tuple[int], k: int) = i^k * letters.
"""
import itertools

LET = "IXYZ"

# single-qubit products: a*b = i^ph * c      (X*Y = iZ, Y*Z = iX, Z*X = iY)
_MUL = {}
for a in range(4):
    for b in range(4):
        if a == 0:
            _MUL[a, b] = (b, 0)
        elif b == 0:
            _MUL[a, b] = (a, 0)
        elif a == b:
            _MUL[a, b] = (0, 0)
        else:
            c = 6 - a - b  # the third letter
            # cyclic order X(1)->Y(2)->Z(3)->X : a then b cyclic => +i, else -i
            ph = 1 if (a % 3) + 1 == b else 3
            _MUL[a, b] = (c, ph)
MUL_L = [[_MUL[a, b][0] for b in range(4)] for a in range(4)]
MUL_P = [[_MUL[a, b][1] for b in range(4)] for a in range(4)]


def pmul(p, q):
    (la, ka), (lb, kb) = p, q
    k = ka + kb
    out = []
    for a, b in zip(la, lb):
        out.append(MUL_L[a][b])
        k += MUL_P[a][b]
    return tuple(out), k & 3


def pcommute(la, lb):
    """True iff the letter strings commute."""
    n = 0
    for a, b in zip(la, lb):
        if a and b and a != b:
            n += 1
    return n % 2 == 0


def pident(n):
    return (0,) * n, 0


def pstr(p):
    l, k = p
    return ["+", "+i", "-", "-i"][k] + "".join(LET[a] for a in l)


def pparse(s):
    k = 0
    body = s
    if body.startswith("+i"):
        k, body = 1, body[2:]
    elif body.startswith("-i"):
        k, body = 3, body[2:]
    elif body.startswith("+"):
        k, body = 0, body[1:]
    elif body.startswith("-"):
        k, body = 2, body[1:]
    elif body.startswith("i"):
        k, body = 1, body[1:]
    return tuple(LET.index(c) for c in body), k


def from_gp(g, p):
    """package (g, p) -> RefPauli using the documented convention
    sigma[g] = i^(x.z) prod X^x Z^z, i.e. (x,z)=(1,1) is the letter Y with no extra phase."""
    g = [int(v) for v in g]
    n = len(g) // 2
    out = []
    for i in range(n):
        x, z = g[2 * i], g[2 * i + 1]
        if x not in (0, 1) or z not in (0, 1):
            raise ValueError("non-binary entry")
        out.append((0, 3, 1, 2)[x * 2 + z])  # (0,0)I (0,1)Z (1,0)X (1,1)Y
    return tuple(out), int(p) & 3


def to_g(letters):
    g = []
    for a in letters:
        g += [(0, 0), (1, 0), (1, 1), (0, 1)][a]
    return g


def hermitian(p):
    return p[1] in (0, 2)


def sign_of(p):
    assert p[1] in (0, 2)
    return 1 if p[1] == 0 else -1


# ------------------------------------------------------------------ conjugations
def rotate(p, G):
    """U^dag P U with U = exp(i pi/4 G), G Hermitian: P if [P,G]=0 else i*P*G."""
    if pcommute(p[0], G[0]):
        return p
    l, k = pmul(p, G)
    return l, (k + 1) & 3


def embed_letters(small, qubits, n):
    out = [0] * n
    for a, q in zip(small, qubits):
        out[q] = a
    return tuple(out)


def apply_map(p, images, qubits=None):
    """Homomorphism given by images of X_i,Z_i (list of RefPauli, order X0,Z0,X1,Z1,...)
    acting on `qubits` (ascending list; None = all).  Y_i = i X_i Z_i."""
    letters, k = p
    n = len(letters)
    if qubits is None:
        qubits = list(range(n))
    res_l = list(letters)
    for q in qubits:
        res_l[q] = 0
    acc = (tuple(res_l), k)
    for j, q in enumerate(qubits):
        a = letters[q]
        if a == 0:
            continue
        ix = images[2 * j]
        iz = images[2 * j + 1]
        ixe = (embed_letters(ix[0], qubits, n), ix[1])
        ize = (embed_letters(iz[0], qubits, n), iz[1])
        if a == 1:
            acc = pmul(acc, ixe)
        elif a == 3:
            acc = pmul(acc, ize)
        else:
            acc = pmul(acc, ixe)
            acc = pmul(acc, ize)
            acc = (acc[0], (acc[1] + 1) & 3)
    return acc


def map_is_valid(images):
    """canonical commutation relations + Hermitian images."""
    m = len(images)
    for i in range(m):
        if not hermitian(images[i]):
            return False
        for j in range(m):
            want_anti = (i // 2 == j // 2) and i != j
            if pcommute(images[i][0], images[j][0]) == want_anti:
                return False
    return True


def identity_images(n):
    out = []
    for i in range(n):
        lx = [0] * n
        lx[i] = 1
        lz = [0] * n
        lz[i] = 3
        out.append((tuple(lx), 0))
        out.append((tuple(lz), 0))
    return out


def map_from_gp(gs, ps):
    return [from_gp(g, p) for g, p in zip(gs, ps)]


# ------------------------------------------------------------------------ states
class InvariantBroken(Exception):
    def __init__(self, what):
        super().__init__(what)
        self.what = what


class RefState:
    """A stabilizer state as its whole group {letters: sign}."""
    __slots__ = ("n", "grp")

    def __init__(self, n, grp):
        self.n = n
        self.grp = grp

    @staticmethod
    def from_generators(n, gens):
        grp = {(0,) * n: 1}
        for g in gens:
            if not hermitian(g):
                raise InvariantBroken("non-Hermitian generator %s" % pstr(g))
            if g[0] in grp:
                if grp[g[0]] != sign_of(g):
                    raise InvariantBroken("generators imply -identity")
                raise InvariantBroken("dependent generators")
            new = {}
            for l, s in grp.items():
                if not pcommute(l, g[0]):
                    raise InvariantBroken("anticommuting generators")
                pl, pk = pmul((l, 0 if s == 1 else 2), g)
                if pk not in (0, 2):
                    raise InvariantBroken("non-Hermitian product")
                new[pl] = 1 if pk == 0 else -1
            grp.update(new)
        return RefState(n, grp)

    def copy(self):
        return RefState(self.n, dict(self.grp))

    @property
    def rank(self):
        """log2 of the rank of the density matrix."""
        return self.n - (len(self.grp).bit_length() - 1)

    def key(self):
        return tuple(sorted(self.grp.items()))

    def __eq__(self, other):
        return self.n == other.n and self.grp == other.grp

    def rotate(self, G):
        new = {}
        for l, s in self.grp.items():
            pl, pk = rotate((l, 0 if s == 1 else 2), G)
            new[pl] = 1 if pk == 0 else -1
            assert pk in (0, 2)
        return RefState(self.n, new)

    def apply_map(self, images, qubits=None):
        new = {}
        for l, s in self.grp.items():
            pl, pk = apply_map((l, 0 if s == 1 else 2), images, qubits)
            if pk not in (0, 2):
                raise InvariantBroken("map produced non-Hermitian image")
            new[pl] = 1 if pk == 0 else -1
        if len(new) != len(self.grp):
            raise InvariantBroken("map is not injective")
        return RefState(self.n, new)

    def eigenvalue(self, P):
        """+1/-1 if P (Hermitian, signed) is determined, else None."""
        s = self.grp.get(P[0])
        if s is None:
            return None
        return s * sign_of(P)

    def project(self, P, value):
        """normalised projection onto eigenvalue `value` (+1/-1) of P.
        Returns (new_state, probability)."""
        ev = self.eigenvalue(P)
        if ev is not None:
            return (self.copy(), 1.0) if ev == value else (None, 0.0)
        signed = (P[0], (P[1] + (0 if value == 1 else 2)) & 3)
        comm = {l: s for l, s in self.grp.items() if pcommute(l, P[0])}
        new = dict(comm)
        for l, s in comm.items():
            pl, pk = pmul((l, 0 if s == 1 else 2), signed)
            assert pk in (0, 2)
            new[pl] = 1 if pk == 0 else -1
        return RefState(self.n, new), 0.5

    def overlap(self, other):
        """Tr(rho sigma)."""
        t = 0
        for l, s in self.grp.items():
            o = other.grp.get(l)
            if o is not None:
                t += s * o
        return t / (2 ** self.n)

    def expect(self, P):
        """Tr(rho P) for a RefPauli with any phase (complex)."""
        s = self.grp.get(P[0])
        if s is None:
            return 0
        return s * (1j ** P[1])

    def dense(self):
        import numpy as np
        mats = [np.eye(2), np.array([[0, 1], [1, 0]]), np.array([[0, -1j], [1j, 0]]),
                np.array([[1, 0], [0, -1]])]
        rho = np.zeros((2 ** self.n, 2 ** self.n), dtype=complex)
        for l, s in self.grp.items():
            m = np.array([[1.0]])
            for a in l:
                m = np.kron(m, mats[a])
            rho = rho + s * m
        return rho / 2 ** self.n


def check_tableau(gs, ps, r, n=None):
    """C05 invariant on raw (gs, ps, r).  Returns the list of tableau rows as RefPauli.
    Raises InvariantBroken with a short reason."""
    import numpy as np
    gs = np.asarray(gs)
    ps = np.asarray(ps)
    if gs.ndim != 2 or gs.shape[0] != gs.shape[1] or gs.shape[0] % 2:
        raise InvariantBroken("gs shape %s" % (gs.shape,))
    N = gs.shape[0] // 2
    if n is not None and N != n:
        raise InvariantBroken("N changed to %d" % N)
    if ps.shape != (2 * N,):
        raise InvariantBroken("ps shape %s" % (ps.shape,))
    if isinstance(r, bool) or not isinstance(r, (int, np.integer)):
        raise InvariantBroken("r is %r" % (r,))
    r = int(r)
    if not 0 <= r <= N:
        raise InvariantBroken("r=%d out of range" % r)
    if not np.isin(gs, (0, 1)).all():
        raise InvariantBroken("gs has non-binary entries")
    if not np.all(np.equal(np.mod(ps, 1), 0)):
        raise InvariantBroken("ps not integral")
    rows = [from_gp(gs[i], int(ps[i]) % 4) for i in range(2 * N)]
    for i in range(2 * N):
        for j in range(i + 1, 2 * N):
            anti = not pcommute(rows[i][0], rows[j][0])
            if anti != (j - i == N):
                raise InvariantBroken("rows %d,%d %s" % (i, j, "anticommute" if anti else "commute"))
    for i in range(r, N):
        if rows[i][1] not in (0, 2):
            raise InvariantBroken("active stabilizer %d has phase %d" % (i, rows[i][1]))
    return rows, N, r


def alpha(gs, ps, r, n=None):
    """Abstraction function: tableau -> RefState (the whole group).  Checks C05."""
    rows, N, r = check_tableau(gs, ps, r, n)
    st = RefState.from_generators(N, rows[r:N])
    if len(st.grp) != 2 ** (N - r):
        raise InvariantBroken("group size")
    return st


def alpha_state(state):
    return alpha(state.gs, state.ps, state.r)


# ------------------------------------------------------------------- generators
def rand_letters(rng, n, nonid=True):
    while True:
        l = tuple(rng.randrange(4) for _ in range(n))
        if not nonid or any(l):
            return l


def rand_hermitian(rng, n, nonid=True):
    return rand_letters(rng, n, nonid), rng.choice((0, 2))


def rand_clifford_images(rng, n, steps=None):
    """valid map images = identity images pushed through a random word of rotations and
    sign flips (rotations by Hermitian Paulis generate the Clifford group mod phases;
    sign flips are conjugations by Paulis = two rotations, so all sign patterns occur)."""
    imgs = identity_images(n)
    steps = rng.randrange(0, 3 * n + 3) if steps is None else steps
    for _ in range(steps):
        G = rand_hermitian(rng, n)
        imgs = [rotate(p, G) for p in imgs]
    # random signs: conjugate by a random Pauli (flips exactly the images anticommuting)
    # plus explicit independent sign flips of X/Z images (any sign pattern is a valid map)
    for i in range(2 * n):
        if rng.random() < 0.5:
            imgs[i] = (imgs[i][0], (imgs[i][1] + 2) & 3)
    return imgs


def rand_commuting_independent(rng, n, count):
    """`count` independent commuting Hermitian generators (signed)."""
    imgs = rand_clifford_images(rng, n, steps=rng.randrange(0, 3 * n + 2))
    zs = [imgs[2 * i + 1] for i in range(n)]
    rng.shuffle(zs)
    gens = zs[:count]
    # mix generators among themselves (still independent, still commuting)
    for _ in range(rng.randrange(0, 2 * count + 1)):
        if count < 2:
            break
        i, j = rng.sample(range(count), 2)
        gens[i] = pmul(gens[i], gens[j])
    return gens


def selftest(verbose=False):
    """Model self-test against dense numpy matrices (kron), section 5.1/5.2 of DESIGN."""
    import numpy as np
    import random
    mats = [np.eye(2), np.array([[0, 1], [1, 0]]), np.array([[0, -1j], [1j, 0]]),
            np.array([[1, 0], [0, -1]])]

    def dense(p):
        m = np.array([[1.0 + 0j]])
        for a in p[0]:
            m = np.kron(m, mats[a])
        return (1j ** p[1]) * m

    n_checked = 0
    for n in (1, 2):
        alls = [(l, k) for l in itertools.product(range(4), repeat=n) for k in range(4)]
        for p in alls:
            for q in alls:
                assert np.allclose(dense(pmul(p, q)), dense(p) @ dense(q)), (p, q)
                c = np.allclose(dense(p) @ dense(q), dense(q) @ dense(p))
                assert c == pcommute(p[0], q[0])
                n_checked += 1
    rng = random.Random(12345)
    for _ in range(2000):
        n = rng.choice((3, 4))
        p = (rand_letters(rng, n, False), rng.randrange(4))
        q = (rand_letters(rng, n, False), rng.randrange(4))
        assert np.allclose(dense(pmul(p, q)), dense(p) @ dense(q))
        c = np.allclose(dense(p) @ dense(q), dense(q) @ dense(p))
        assert c == pcommute(p[0], q[0])
        n_checked += 1
    # from_gp convention: sigma[g] = i^(x.z) X^x Z^z
    X, Z = mats[1], mats[3]
    for x in (0, 1):
        for z in (0, 1):
            m = (1j ** (x * z)) * np.linalg.matrix_power(X, x) @ np.linalg.matrix_power(Z, z)
            assert np.allclose(dense(from_gp([x, z], 0)), m)
    # rotation = conjugation by exp(i pi/4 G)
    for _ in range(300):
        n = rng.choice((1, 2, 3))
        G = rand_hermitian(rng, n)
        p = (rand_letters(rng, n, False), rng.randrange(4))
        U = (np.eye(2 ** n) + 1j * dense(G)) / np.sqrt(2)
        assert np.allclose(dense(rotate(p, G)), U.conj().T @ dense(p) @ U)
        n_checked += 1
    # maps are homomorphisms; rand_clifford_images valid
    for _ in range(300):
        n = rng.choice((1, 2, 3))
        imgs = rand_clifford_images(rng, n)
        assert map_is_valid(imgs)
        p = (rand_letters(rng, n, False), rng.randrange(4))
        q = (rand_letters(rng, n, False), rng.randrange(4))
        assert apply_map(pmul(p, q), imgs) == pmul(apply_map(p, imgs), apply_map(q, imgs))
        for i in range(n):
            lx = [0] * n
            lx[i] = 1
            assert apply_map((tuple(lx), 0), imgs) == imgs[2 * i]
        n_checked += 1
    # masked map == embedded map
    for _ in range(200):
        n = rng.choice((2, 3, 4))
        m = rng.randrange(1, n)
        qs = sorted(rng.sample(range(n), m))
        imgs = rand_clifford_images(rng, m)
        full = identity_images(n)
        for j, q in enumerate(qs):
            full[2 * q] = (embed_letters(imgs[2 * j][0], qs, n), imgs[2 * j][1])
            full[2 * q + 1] = (embed_letters(imgs[2 * j + 1][0], qs, n), imgs[2 * j + 1][1])
        p = (rand_letters(rng, n, False), rng.randrange(4))
        assert apply_map(p, imgs, qs) == apply_map(p, full)
        n_checked += 1
    # states: projection, probabilities, overlaps against dense matrices
    for _ in range(400):
        n = rng.choice((1, 2, 3))
        cnt = rng.randrange(0, n + 1)
        gens = rand_commuting_independent(rng, n, cnt)
        st = RefState.from_generators(n, gens)
        rho = st.dense()
        assert np.allclose(np.trace(rho), 1) and np.allclose(rho, rho.conj().T)
        assert np.allclose(rho @ rho, rho / 2 ** st.rank)
        assert st.rank == n - cnt
        P = rand_hermitian(rng, n, nonid=rng.random() < 0.9)
        Pm = dense(P)
        for value in (1, -1):
            proj = (np.eye(2 ** n) + value * Pm) / 2
            prob = np.trace(proj @ rho).real
            new, mp = st.project(P, value)
            assert abs(prob - mp) < 1e-9, (prob, mp)
            if mp > 0:
                post = proj @ rho @ proj / prob
                assert np.allclose(new.dense(), post)
        ev = st.eigenvalue(P)
        tr = np.trace(rho @ Pm)
        assert np.allclose(tr, 0 if ev is None else ev)
        gens2 = rand_commuting_independent(rng, n, rng.randrange(0, n + 1))
        st2 = RefState.from_generators(n, gens2)
        assert abs(st.overlap(st2) - np.trace(rho @ st2.dense()).real) < 1e-9
        G = rand_hermitian(rng, n)
        U = (np.eye(2 ** n) + 1j * dense(G)) / np.sqrt(2)
        assert np.allclose(st.rotate(G).dense(), U.conj().T @ rho @ U)
        n_checked += 1
    if verbose:
        print("refmodel selftest ok: %d checks" % n_checked)
    return n_checked
