"""Adapters between harness literals (RefPauli strings) and pyclifford objects."""
import numpy as np

import refmodel as rm
import seams

pc = None


def load():
    global pc
    if pc is None:
        pc = seams.import_sut()
    return pc


def g_of(letters):
    return np.array(rm.to_g(letters), dtype=np.int_)


def mk_pauli(p):
    return pc.Pauli(g_of(p[0]), int(p[1]))


def mk_list(ps, n=None):
    if len(ps) == 0:
        return pc.PauliList(np.zeros((0, 2 * n), dtype=np.int_), np.zeros(0, dtype=np.int_))
    gs = np.stack([g_of(p[0]) for p in ps])
    return pc.PauliList(gs, np.array([p[1] for p in ps], dtype=np.int_))


def mk_map(images):
    gs = np.stack([g_of(p[0]) for p in images])
    return pc.CliffordMap(gs, np.array([p[1] for p in images], dtype=np.int_))


def mk_mask(qubits, n):
    m = np.zeros(n, dtype=np.bool_)
    m[list(qubits)] = True
    return m


def list_to_ref(plist):
    return [rm.from_gp(plist.gs[i], int(plist.ps[i]) % 4) for i in range(plist.gs.shape[0])]


def pauli_to_ref(p):
    return rm.from_gp(p.g, int(p.p) % 4)


def strs(ps):
    return [rm.pstr(p) for p in ps]


def parse_list(ss):
    return [rm.pparse(s) for s in ss]


def raw_state(st):
    """bitwise snapshot of a state."""
    return (np.array(st.gs).tobytes(), np.array(st.ps).tobytes(), tuple(np.array(st.gs).shape),
            int(st.r) if isinstance(st.r, (int, np.integer)) else repr(st.r))


def tableau_rows(st):
    return [rm.from_gp(st.gs[i], int(st.ps[i]) % 4) for i in range(st.gs.shape[0])]


# ----------------------------------------------------------------- back ends
class Backend:
    """the handful of constructors the worlds need, for numpy (pyclifford) and torch
    (torchclifford).  Reference-model conversions work on both (they only index and int())."""
    name = "numpy"

    def __init__(self):
        self.mod = load()

    def arr(self, a, kind="g"):
        return np.array(a, dtype=np.int_)

    def clone(self, a):
        return np.array(a).copy()

    def mk_pauli(self, p):
        return self.mod.Pauli(self.arr(rm.to_g(p[0])), int(p[1]))

    def mk_list(self, ps):
        gs = self.arr([rm.to_g(p[0]) for p in ps])
        return self.mod.PauliList(gs, self.arr([p[1] for p in ps], "p"))

    def mk_map(self, images):
        gs = self.arr([rm.to_g(p[0]) for p in images])
        return self.mod.CliffordMap(gs, self.arr([p[1] for p in images], "p"))

    def mk_state(self, gs, ps, r):
        st = self.mod.StabilizerState(gs=self.clone(gs), ps=self.clone(ps))
        st.r = int(r)
        return st

    def identity_circuit(self, n):
        return self.mod.identity_circuit(n)

    def mk_mask(self, qubits, n):
        return mk_mask(qubits, n)


class TorchBackend(Backend):
    name = "torch"

    def __init__(self):
        tc = seams.import_sut_torch()
        self.torch = seams.torch()

        class NS:
            """torchclifford does not re-export its classes at top level: look them up in the
            submodules the way a user would import them."""
            def __getattr__(self_, name):
                for m in (tc, tc.circuit, tc.stabilizer, tc.paulialg, tc.utils):
                    if hasattr(m, name):
                        return getattr(m, name)
                raise AttributeError(name)
        self.mod = NS()

    def arr(self, a, kind="g"):
        return self.torch.tensor(a, dtype=self.torch.float32)

    def clone(self, a):
        return a.detach().clone() if hasattr(a, "detach") else self.torch.tensor(np.array(a), dtype=self.torch.float32)

    def mk_state(self, gs, ps, r):
        st = self.mod.StabilizerState(self.clone(gs), self.clone(ps))
        st.r = int(r)
        return st

    def mk_mask(self, qubits, n):
        return self.torch.tensor(mk_mask(qubits, n))


_BACKENDS = {}


def backend(name):
    if name not in _BACKENDS:
        _BACKENDS[name] = TorchBackend() if name == "torch" else Backend()
    return _BACKENDS[name]
