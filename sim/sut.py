"""Adapters between harness literals (RefPauli strings) and pyclifford objects."""
import numpy as np

import refmodel as rm
import seams

pc = None


def load():
    global pc
    if pc is None:
        pc = seams.import_sut()
    return pc


def g_of(letters):
    return np.array(rm.to_g(letters), dtype=np.int_)


def mk_pauli(p):
    return pc.Pauli(g_of(p[0]), int(p[1]))


def mk_list(ps, n=None):
    if len(ps) == 0:
        return pc.PauliList(np.zeros((0, 2 * n), dtype=np.int_), np.zeros(0, dtype=np.int_))
    gs = np.stack([g_of(p[0]) for p in ps])
    return pc.PauliList(gs, np.array([p[1] for p in ps], dtype=np.int_))


def mk_map(images):
    gs = np.stack([g_of(p[0]) for p in images])
    return pc.CliffordMap(gs, np.array([p[1] for p in images], dtype=np.int_))


def mk_mask(qubits, n):
    m = np.zeros(n, dtype=np.bool_)
    m[list(qubits)] = True
    return m


def list_to_ref(plist):
    return [rm.from_gp(plist.gs[i], int(plist.ps[i]) % 4) for i in range(plist.gs.shape[0])]


def pauli_to_ref(p):
    return rm.from_gp(p.g, int(p.p) % 4)


def strs(ps):
    return [rm.pstr(p) for p in ps]


def parse_list(ss):
    return [rm.pparse(s) for s in ss]


def raw_state(st):
    """bitwise snapshot of a state."""
    return (np.array(st.gs).tobytes(), np.array(st.ps).tobytes(), tuple(np.array(st.gs).shape),
            int(st.r) if isinstance(st.r, (int, np.integer)) else repr(st.r))


def tableau_rows(st):
    return [rm.from_gp(st.gs[i], int(st.ps[i]) % 4) for i in range(st.gs.shape[0])]
