"""C05 - every reachable stabilizer state is a valid density matrix (tableau invariant)."""
import stateworld

PROP_ID = "C05"
WARMUP_RUNS = 150   # chunks run in fresh forks: kernel signatures must be compiled in the parent
OWN_PREFIX = "c05."


class RunClass(stateworld.StateWorld):
    prop_id = PROP_ID


def gen_config(rng, tier):
    n = rng.choice([1, 2, 2, 2, 3, 3, 3, 3, 4, 4, 4, 5, 6] if tier == "thorough" else
                   [1, 2, 2, 2, 3, 3, 3, 3, 4, 4, 5])
    if rng.random() < 0.02:
        n = rng.choice([7, 8, 9])      # a few runs on larger registers (word / byte boundaries, wider tableaux)
    ops = {"new": 1.0, "measure": 3.0}
    for k, w in (("rot", 2.0), ("tmap", 1.5), ("gate", 1.5), ("copy", 0.7), ("setr", 0.7),
                 ("remeasure", 1.0), ("postselect", 1.5), ("mlayer", 1.0), ("cnew", 0.8),
                 ("ctake", 0.5), ("ccompile", 0.3), ("cfwd", 1.5), ("cbwd", 1.0), ("diag", 0.4), ("relayout", 0.4), ("tmapstate", 0.6)):
        if rng.random() < 0.7:
            ops[k] = w * rng.choice([0.5, 1.0, 2.0])
    faults = [f for f in ("coin_force", "remeasure", "view_operand", "rejected_op") if rng.random() < 0.7]
    return {"n": n, "steps": (lambda x: min(x, 14) if n >= 6 else x)(rng.randrange(4, 40) if tier != "thorough" else rng.randrange(4, 90)), "ops": ops, "faults": faults,
            "flags": ["c05"], "max_slots": rng.choice([1, 2, 3, 4]), "dense": rng.random() < 0.3}


# reach guard: a full-size batch in which one of these never fired means the workload or the
# harness has rotted (exit 2, never a pass)
REQUIRED_REACH = ['coin_force', 'rejected_op', 'view_operand', 'pivot:standby_stabilizer', 'pivot:standby_destabilizer', 'masked_update_on_mixed_state', 'mixed_state_created', 'config:compiled']


def warm_extra():
    stateworld.warm_layouts()
