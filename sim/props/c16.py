"""C16 - random Cliffords are valid and uniformly distributed.

The simulator owns the three RNG streams.  A run is a block of draws from one sampler at
one N under one seeding regime ("each": one entropy word per draw; "stream": one word per
block, draws consume the stream).  Every draw is checked for validity (a normal
operation-level oracle with replay/shrinking); class frequencies are accumulated per
(sampler, N, regime) and tested by chi-square at false-alarm level 1e-9 per statistic
in the parent (batch-level oracle; the replay file is the batch descriptor)."""
from collections import Counter

import numpy as np

import refmodel as rm
import seams
import sut
from core import Run, Violation, Skip, new_entropy

PROP_ID = "C16"
WARMUP_RUNS = 40
RULE = ("one evaluation = one block of draws from one sampler (a seeded RNG-stream history); every draw is "
        "checked for validity and binned; non-trivial = at least one draw; distinct = distinct SHA-256 of "
        "the block's event log (entropy words + sampled tables)")
ASSUMPTIONS = [
    "uniformity verdicts are statistical: chi-square at false-alarm level 1e-9 per statistic; a bias below the "
    "resolution of the sample sizes reported under batch_statistics passes",
    "N<=3 for distribution tests (finite groups small enough to bin), N<=6 for validity",
]

BATCH = Counter()


def drain_batch_stats():
    global BATCH
    out = BATCH
    BATCH = Counter()
    return out


def _t():
    return seams.torch()


def _np(a):
    if hasattr(a, "detach"):
        return a.detach().cpu().numpy().astype(np.int64)
    return np.asarray(a)


# sampler table: name -> (draw(pc, tc, n, aux) -> raw, kind)
def _draw(name, pc, tc, n, aux):
    if name == "rpair":
        g1, g2 = pc.utils.random_pair(n)
        return ("pair", _np(g1), _np(g2))
    if name == "rpauli":
        return ("table", _np(pc.utils.random_pauli(n)), None, True)
    if name == "rcliff":
        return ("table", _np(pc.utils.random_clifford(n)), None, False)
    if name == "rpm":
        m = pc.random_pauli_map(n)
        return ("table", _np(m.gs), _np(m.ps), True)
    if name == "rcm":
        m = pc.random_clifford_map(n)
        return ("table", _np(m.gs), _np(m.ps), False)
    if name == "rps":
        s = pc.random_pauli_state(n, aux)
        return ("state", _np(s.gs), _np(s.ps), s.r)
    if name == "rcs":
        s = pc.random_clifford_state(n, aux)
        return ("state", _np(s.gs), _np(s.ps), s.r)
    if name == "rbs":
        s = pc.random_bit_state(n)
        return ("state", _np(s.gs), _np(s.ps), s.r)
    if name in ("onsite", "global", "brickwall"):
        circ, direction, start = aux
        s = pc.zero_state(n) if start == "zero" else pc.one_state(n)
        if direction == "alternate":
            # forward then backward of the same random object: two independent draws, so the
            # composition is again uniform (an object that "undoes" its last draw gives identity)
            circ.forward(s)
            circ.backward(s)
        else:
            getattr(circ, direction)(s)
        return ("state", _np(s.gs), _np(s.ps), s.r)
    if name in ("mcirc", "fcirc"):
        circ, start = aux
        s = pc.zero_state(n) if start == "zero" else pc.one_state(n)
        circ.forward(s)
        return ("state", _np(s.gs), _np(s.ps), s.r)
    if name == "gate":
        gate, direction = aux
        lst = sut.mk_list(rm.identity_images(n))
        if direction == "alternate":
            gate.forward(lst)
            gate.backward(lst)
        else:
            getattr(gate, direction)(lst)
        return ("table", _np(lst.gs), _np(lst.ps), False)
    if name == "coin":
        s = pc.maximally_mixed_state(n)
        out, l2p = s.measure(aux)
        return ("bits", [int(x) for x in out])
    if name == "coinfix":
        gs, ps, r, obs = aux
        s = sut.backend("numpy").mk_state(gs, ps, r)
        out, l2p = s.measure(obs)
        return ("fixbits", [int(x) for x in out])
    # torch samplers
    if name == "t:rpair":
        g1, g2 = tc.utils.random_pair(n)
        return ("pair", _np(g1), _np(g2))
    if name == "t:rpauli":
        return ("table", _np(tc.utils.random_pauli(n)), None, True)
    if name == "t:rcliff":
        return ("table", _np(tc.utils.random_clifford(n)), None, False)
    if name == "t:rpm":
        m = tc.random_pauli_map(n)
        return ("table", _np(m.gs), _np(m.ps), True)
    if name == "t:rcm":
        m = tc.random_clifford_map(n)
        return ("table", _np(m.gs), _np(m.ps), False)
    if name == "t:rcs":
        s = tc.random_clifford_state(n, aux)
        return ("state", _np(s.gs), _np(s.ps), s.r)
    if name == "t:rps":
        s = tc.random_pauli_state(n, aux)
        return ("state", _np(s.gs), _np(s.ps), s.r)
    raise KeyError(name)


# (sampler, n, weight)  - weights tuned so that every statistic reaches its sample size
TABLE = [
    ("rcm", 1, 3), ("rcm", 2, 30), ("rcm", 3, 22), ("rcm", 4, 1), ("rcm", 5, 1), ("rcm", 6, 1),
    ("rpm", 1, 2), ("rpm", 2, 4), ("rpm", 3, 6), ("rpm", 5, 1),
    ("rcliff", 2, 2), ("rcliff", 4, 1), ("rpauli", 3, 1), ("rpair", 2, 3), ("rpair", 5, 1),
    ("rcs", 2, 5), ("rcs", 3, 1), ("rcs", 4, 1), ("rps", 3, 1), ("rbs", 3, 2), ("rbs", 6, 1),
    ("onsite", 2, 2), ("onsite", 4, 1), ("global", 2, 3), ("global", 3, 1), ("brickwall", 2, 2), ("brickwall", 4, 1),
    ("gate", 2, 3), ("gate", 1, 1), ("coin", 4, 2), ("coinfix", 2, 1), ("coinfix", 3, 2), ("coinfix", 4, 2),
    ("coinfix", 1, 1), ("mcirc", 2, 2), ("mcirc", 3, 1), ("mcirc", 4, 1), ("fcirc", 2, 3), ("fcirc", 3, 2), ("fcirc", 4, 1),
    ("t:rcm", 1, 2), ("t:rcm", 2, 12), ("t:rcm", 3, 8), ("t:rpm", 2, 3), ("t:rpair", 2, 2), ("t:rcliff", 3, 2),
    ("t:rcs", 2, 2), ("t:rpauli", 2, 1), ("t:rps", 2, 1), ("t:rpm", 3, 1), ("t:rcs", 3, 1), ("t:rpair", 3, 1),
    ("t:rcm", 4, 2), ("rps", 2, 3), ("rps", 1, 1), ("t:rps", 2, 1), ("rpm", 6, 1), ("rpauli", 6, 1), ("rcs", 5, 1),
    ("rcs", 6, 1), ("rps", 5, 1), ("t:rcm", 5, 1), ("rcm", 4, 2), ("rpm", 4, 1), ("t:rpauli", 6, 2), ("t:rpm", 5, 1),
    ("rcm", 8, 1), ("rcs", 8, 1), ("rpm", 9, 1), ("t:rcm", 7, 1),
]


def gen_config(rng, tier):
    names = [(a, b) for a, b, _ in TABLE]
    weights = [w for _, _, w in TABLE]
    sampler, n = rng.choices(names, weights=weights)[0]
    cfg = {"sampler": sampler, "n": n, "regime": rng.choice(["each", "stream"]),
           "steps": 250 if sampler.startswith("t:") else 500, "flags": ["c16"]}
    if sampler in ("rcs", "rps", "t:rcs", "t:rps"):
        cfg["r"] = rng.choice([None, 0, 0, 0] + list(range(n + 1))) if n != 2 else rng.choice([None, 0, 0, 1])
    if sampler in ("onsite", "global", "brickwall"):
        cfg["dir"] = rng.choice(["forward", "backward", "alternate"])
        cfg["start"] = rng.choice(["zero", "zero", "one"])
        cfg["depth"] = rng.randrange(1, 4)
        cfg["steps"] = 200
    if sampler == "gate":
        cfg["dir"] = rng.choice(["forward", "backward", "alternate"])
        cfg["steps"] = 200
    if sampler == "mcirc":
        # random gates added with Circuit.gate(...) to the Circuit class (the one with measurement
        # support); for N >= 3 a measurement layer sits between two random gates
        cfg["start"] = rng.choice(["zero", "zero", "one"])
        cfg["steps"] = 200
    if sampler == "fcirc":
        # a random gate added right after a FIXED gate (generator rotation, compiled or not, named
        # gate, map gate) on the same / a smaller / an overlapping support: the fixed gate must not
        # change the fact that the random one is drawn afresh at every call
        cfg["start"] = rng.choice(["zero", "zero", "one"])
        cfg["steps"] = 200
        cfg["cls"] = rng.choice(["Circuit", "CliffordCircuit"])
        kind = rng.choice(["rot", "rot", "rot_compiled", "named", "fmap"])
        full = rm.rand_hermitian(rng, n)
        support = [i for i, a in enumerate(full[0]) if a]
        if not support:
            kind = "named"
        fixed = {"kind": kind}
        if kind in ("rot", "rot_compiled"):
            fixed["G"] = rm.pstr(full)
        elif kind == "named":
            if n >= 2 and rng.random() < 0.5:
                support = rng.sample(range(n), 2)
                fixed["name"] = "CNOT"
            else:
                support = [rng.randrange(n)]
                fixed["name"] = rng.choice(["H", "S", "X", "Y", "Z"])
        else:
            support = sorted(rng.sample(range(n), rng.randrange(1, min(n, 3) + 1)))
            fixed["images"] = sut.strs(rm.rand_clifford_images(rng, len(support)))
        fixed["qubits"] = list(support)
        cfg["fixed"] = fixed
        how = rng.choice(["subset", "same", "same", "any"])
        if how == "same":
            rq = sorted(support)
        elif how == "subset":
            rq = sorted(rng.sample(sorted(support), rng.randrange(1, len(support) + 1)))
        else:
            rq = sorted(rng.sample(range(n), rng.randrange(1, n + 1)))
        cfg["rand_qubits"] = rq
        if rng.random() < 0.3:
            cfg["tail"] = rm.pstr(rm.rand_hermitian(rng, n))
    if sampler == "coinfix":
        # one fixed (mixed or pure) state per block, measured again and again on fresh copies:
        # every undetermined outcome must be a coin, not a function of the state
        cfg["state_entropy"] = rng.getrandbits(64)
        cfg["r"] = rng.randrange(0, n + 1)
        cfg["ctor"] = rng.choice(["rcs", "rcs", "mixed", "setr"])
        order = list(range(n))
        rng.shuffle(order)
        cfg["order"] = order[:rng.randrange(1, n + 1)]
        cfg["basis"] = rng.choice(["Z", "Z", "X", "rand"])
        cfg["steps"] = 160
    if sampler in ("gate", "onsite", "global", "brickwall"):
        # fault / configuration injected before the draws: the object is copied, or a compile()
        # is attempted first (documented to raise for random gates: a rejected operation)
        cfg["prep"] = rng.choice(["none", "none", "copy", "failed_compile", "other_direction_first"])
    return cfg


class RunClass(Run):
    prop_id = PROP_ID

    def __init__(self, cfg):
        super().__init__(cfg)
        self.pc = sut.load()
        self.tc = seams.import_sut_torch() if cfg["sampler"].startswith("t:") else None
        self.n = cfg["n"]
        self.count = 0
        self.seeded = False
        self.aux = None
        self.distinct = set()
        self.init_exc = None
        try:
            self._prepare(cfg)
        except Exception as e:   # a sampler that raises while the block is set up is judged at the first draw
            self.init_exc = e

    def _prepare(self, cfg):
        s = cfg["sampler"]
        n = self.n
        pc = self.pc
        if s in ("rcs", "rps", "t:rcs", "t:rps"):
            self.aux = cfg.get("r")
        elif s == "onsite":
            self.aux = (pc.onsite_rcc(n), cfg["dir"], cfg["start"])
        elif s == "global":
            self.aux = (pc.global_rcc(n), cfg["dir"], cfg["start"])
        elif s == "brickwall":
            self.aux = (pc.brickwall_rcc(n, cfg["depth"]), cfg["dir"], cfg["start"])
        elif s == "gate":
            self.aux = (pc.CliffordGate(*range(n)), cfg["dir"])
        elif s == "mcirc":
            c = pc.Circuit(n)
            if n == 2:
                c.gate(0, 1)
            else:
                c.gate(0, 1)
                c.measure(0)
                c.gate(*range(1, n))
                c.gate(0)
            self.aux = (c, cfg["start"])
        elif s == "fcirc":
            c = pc.Circuit(n) if cfg["cls"] == "Circuit" else pc.identity_circuit(n)
            f = cfg["fixed"]
            if f["kind"] in ("rot", "rot_compiled"):
                g = pc.clifford_rotation_gate(sut.mk_pauli(rm.pparse(f["G"])))
                if f["kind"] == "rot_compiled":
                    g.compile()
            elif f["kind"] == "named":
                g = getattr(pc, f["name"])(*f["qubits"])
            else:
                g = pc.CliffordGate(*f["qubits"])
                g.set_forward_map(sut.mk_map(sut.parse_list(f["images"])))
            c.take(g)
            c.gate(*cfg["rand_qubits"])
            if cfg.get("tail"):
                c.take(pc.clifford_rotation_gate(sut.mk_pauli(rm.pparse(cfg["tail"]))))
            self.aux = (c, cfg["start"])
            self.stats["config:fixed_%s_then_random" % f["kind"]] += 1
        elif s == "coin":
            self.aux = sut.mk_list([(tuple(3 if i == q else 0 for i in range(n)), 0) for q in range(n)])
        elif s == "coinfix":
            seams.seed_all(cfg["state_entropy"])
            if cfg["ctor"] == "mixed":
                st = pc.maximally_mixed_state(n)
            elif cfg["ctor"] == "setr":
                st = pc.random_clifford_state(n).set_r(cfg["r"])
            else:
                st = pc.random_clifford_state(n, cfg["r"])
            letter = {"Z": 3, "X": 1}.get(cfg["basis"])
            obs = []
            import random as _r
            rr = _r.Random(cfg["state_entropy"])
            for q in cfg["order"]:
                a = letter or rr.choice((1, 2, 3))
                obs.append((tuple(a if i == q else 0 for i in range(n)), rr.choice((0, 2))))
            model = rm.alpha(st.gs, st.ps, st.r, n)
            self.undet = []
            m = model
            for k, P in enumerate(obs):
                if m.eigenvalue(P) is None:
                    self.undet.append(k)
                    m, _ = m.project(P, 1)
            self.seen = [set() for _ in obs]
            self.aux = (np.array(st.gs).copy(), np.array(st.ps).copy(), int(st.r), sut.mk_list(obs, n))
        prep = cfg.get("prep", "none")
        if prep != "none" and self.aux is not None:
            obj = self.aux[0]
            if prep == "copy":
                obj = obj.copy()
            elif prep == "failed_compile":
                try:
                    obj.compile()
                    self.probes["compile_of_random_object_did_not_raise"] += 1
                except Exception:
                    self.stats["rejected_op"] += 1
            elif prep == "other_direction_first":
                seams.seed_all(12345)
                other = "backward" if self.aux[1] in ("forward", "alternate") else "forward"
                getattr(obj, other)(pc.zero_state(n) if s != "gate" else sut.mk_list(rm.identity_images(n)))
            self.aux = (obj,) + tuple(self.aux[1:])
            self.stats["config:prep_" + prep] += 1

    def propose(self, rng):
        op = {"op": "draw", "entropy": new_entropy(rng)}
        if self.cfg["regime"] == "stream" and self.count > 0:
            op["reseed"] = False
        self.count += 1
        return op

    def apply(self, op):
        cfg = self.cfg
        s, n = cfg["sampler"], self.n
        if self.init_exc is not None:
            raise Violation("c16.sampler_raised", {"sampler": s, "n": n, "exc": repr(self.init_exc), "while": "setting up the block"})
        if op.get("reseed", True) or not self.seeded:
            # (a stream whose first draws were removed by the shrinker starts at this op)
            seams.seed_all(op["entropy"])
            self.seeded = True
            self.stats["reseed"] += 1
        else:
            self.stats["stream_draw"] += 1
        try:
            raw = _draw(s, self.pc, self.tc, n, self.aux)
        except Exception as e:
            raise Violation("c16.sampler_raised", {"sampler": s, "n": n, "exc": repr(e)})
        key = self.check(raw)
        self.distinct.add(key)
        self.oracle_steps += 1
        self.nontrivial = True
        self.states.add(hash(key) & 0xFFFFFFFFFFFF)
        return repr(key)[:200]

    # ---------------------------------------------------------------- validity
    def bad(self, what, **d):
        d.update({"sampler": self.cfg["sampler"], "n": self.n})
        raise Violation("c16." + what, d)

    def bin(self, stat, b):
        BATCH[(self.cfg["sampler"], self.n, self.cfg["regime"], stat, b)] += 1

    def check(self, raw):
        s, n = self.cfg["sampler"], self.n
        kind = raw[0]
        if kind == "pair":
            g1, g2 = raw[1], raw[2]
            if g1.shape != (2 * n,) or g2.shape != (2 * n,):
                self.bad("shape", shape=[g1.shape, g2.shape])
            try:
                p1, p2 = rm.from_gp(g1, 0), rm.from_gp(g2, 0)
            except ValueError:
                self.bad("non_binary")
            if not any(p1[0]):
                self.bad("pair_first_is_identity")
            if rm.pcommute(p1[0], p2[0]):
                self.bad("pair_commutes")
            if n == 2:
                self.bin("pair_joint", (p1[0], p2[0]))
                self.bin("pair_first", p1[0])
            return (p1[0], p2[0])
        if kind == "fixbits":
            bits = tuple(raw[1])
            if any(b not in (0, 1) for b in bits) or len(bits) != len(self.seen):
                self.bad("coin_format", bits=list(bits))
            for k, b in enumerate(bits):
                self.seen[k].add(b)
            for k in self.undet:
                self.bin("fixcoin", bits[k])
            if len(self.undet) >= 2:
                # two undetermined outcomes of one call are independent coins ...
                self.bin("fixpair", (bits[self.undet[0]], bits[self.undet[-1]]))
            if self.undet:
                # ... and so are the outcomes of consecutive calls on fresh copies of the state
                prev = getattr(self, "prev_fix", None)
                if prev is not None:
                    self.bin("fixserial", (prev, bits[self.undet[0]]))
                self.prev_fix = bits[self.undet[0]]
            return bits + (self.count,)
        if kind == "bits":
            bits = tuple(raw[1])
            if any(b not in (0, 1) for b in bits) or len(bits) != n:
                self.bad("coin_format", bits=list(bits))
            self.bin("coins", bits)
            return bits
        if kind == "table":
            gs, ps, pauli = raw[1], raw[2], raw[3]
            if gs.shape != (2 * n, 2 * n):
                self.bad("shape", shape=list(gs.shape))
            if ps is None:
                ps_ = np.zeros(2 * n, dtype=np.int64)
            else:
                ps_ = ps
                if ps_.shape != (2 * n,):
                    self.bad("shape_ps", shape=list(ps_.shape))
            try:
                imgs = rm.map_from_gp(gs, ps_)
            except ValueError:
                self.bad("non_binary")
            if not rm.map_is_valid(imgs):
                self.bad("invalid_map", images=sut.strs(imgs))
            if pauli:
                for i in range(n):
                    for im in (imgs[2 * i], imgs[2 * i + 1]):
                        if any(a and j != i for j, a in enumerate(im[0])):
                            self.bad("pauli_map_not_block_diagonal", images=sut.strs(imgs))
            cls = tuple(im[0] for im in imgs)
            sgn = tuple(im[1] for im in imgs)
            if ps is not None and n <= 3 and s not in ("gate",):
                prev = getattr(self, "prev_table", None)
                if prev is not None:
                    # consecutive draws must be independent: the sign pattern (and, for small
                    # groups, the class) repeats only by chance
                    self.bin("sign_repeat", sgn == prev[1])
                    if n <= 2:
                        self.bin("class_repeat", cls == prev[0])
                self.prev_table = (cls, sgn)
            if ps is not None and 2 <= n <= 4 and s in ("rcm", "t:rcm"):
                for i in range(2 * n):
                    self.bin("signletter:r%d" % i, (sgn[i], cls[i][0]))   # sign independent of the image
            if s in ("rcm", "t:rcm", "rcliff", "t:rcliff", "gate"):
                if n == 1:
                    self.bin("class", cls)
                    if ps is not None:
                        self.bin("class_x_sign", (cls, sgn))
                elif n == 2:
                    self.bin("class", cls)
                    self.bin("product", all(sum(1 for a in im[0] if a) == 1 for im in imgs) and
                             all(imgs[2 * i][0][i] and imgs[2 * i + 1][0][i] for i in range(2)))
                    if ps is not None:
                        self.bin("sign", sgn)
                elif n == 3:
                    self.bin("first_pair", (cls[0], cls[1]))
                    for i in range(6):
                        self.bin("row%d" % i, cls[i])   # marginal of every image: uniform over 63 strings
                    self.bin("weights", tuple(sorted(sum(1 for a in c if a) for c in cls)))
                    if ps is not None:
                        self.bin("sign", sgn)
            if s in ("rpm", "t:rpm", "rpauli", "t:rpauli"):
                if n <= 3:
                    self.bin("class", cls)
                    if ps is not None and n <= 3:
                        self.bin("sign", sgn)
            if ps is not None and n >= 4:
                for i, k in enumerate(sgn):
                    self.bin("signbit%d" % i, k)      # every sign bit individually fair
            if pauli and n >= 2:
                # relation between the classes of two sites, pooled over all pairs of sites (for
                # independent uniform sites the relations of different pairs are independent too):
                # (X-image letters equal?, Z-image letters equal?) has probabilities 1/6 1/6 1/6 1/2.
                # Few degrees of freedom: sees a weak dependence between sites that the 36-bin
                # joint table needs ten times the sample for
                st_ = [(cls[2 * i][i], cls[2 * i + 1][i]) for i in range(n)]
                for i in range(n):
                    for j in range(i + 1, n):
                        self.bin("siterel", (st_[i][0] == st_[j][0], st_[i][1] == st_[j][1]))
            if pauli and n >= 4:
                # product maps on larger registers: every site carries one of the 6 single-qubit
                # classes (x4 sign patterns), uniformly, and any two sites are independent
                site = [(cls[2 * i][i], cls[2 * i + 1][i]) for i in range(n)]
                for i in range(n):
                    self.bin("site:q%d" % i, site[i])
                    if ps is not None:
                        self.bin("sitesign:q%d" % i, (site[i], sgn[2 * i], sgn[2 * i + 1]))
                    for j in range(i + 1, n):
                        self.bin("sitepair:q%d:q%d" % (i, j), (site[i], site[j]))
            if n >= 4 and s in ("rcm", "t:rcm", "rcliff", "t:rcliff"):
                # every image of a uniformly random Clifford is marginally uniform over the 4^N-1
                # non-identity strings: letter frequencies per (row, site) have known probabilities
                for i in range(2 * n):
                    for j in range(n):
                        self.bin("letter:r%d:q%d" % (i, j), cls[i][j])
                # ... and every PAIR of images is uniform over the anticommuting pairs (images of
                # X_k, Z_k) resp. over the commuting independent pairs: the joint law of the two
                # letters at one site is known (rows related to each other the wrong way show here
                # although each row alone is uniform); the sign bits of two rows are independent
                sites = range(n) if n == 4 else (0, n - 1)
                for i in range(2 * n):
                    for j in range(i + 1, 2 * n):
                        for q in sites:
                            self.bin("pairletter:r%d:r%d:q%d" % (i, j, q), (cls[i][q], cls[j][q]))
                        if ps is not None:
                            self.bin("signpair:r%d:r%d" % (i, j), (sgn[i], sgn[j]))
            return (cls, sgn)
        if kind == "state":
            gs, ps, r = raw[1], raw[2], raw[3]
            try:
                a = rm.alpha(gs, ps, r, n)
            except rm.InvariantBroken as e:
                self.bad("invalid_state", why=e.what)
            except Exception as e:
                self.bad("invalid_state", why=repr(e))
            want_r = self.cfg.get("r")
            if s in ("rcs", "rps", "t:rcs", "t:rps") and a.rank != (want_r or 0):
                self.bad("state_rank", want=want_r or 0, got=a.rank)
            if s in ("rcs", "t:rcs") and n == 2 and a.rank == 0:
                self.bin("state", a.key())
            if s in ("rcs", "t:rcs", "rps", "t:rps") and n == 2 and a.rank == 1:
                self.bin("state_r1", a.key())     # random MIXED states: 15 strings x 2 signs (6 for product maps)
            if s in ("rps", "t:rps") and n <= 2 and a.rank == 0:
                self.bin("state", a.key())        # uniform over the 6^n product stabilizer states
            if s == "rbs":
                rows = [rm.from_gp(gs[i], int(ps[i]) % 4) for i in range(2 * n)]
                if any(rows[i] [0] != tuple(3 if j == i else 0 for j in range(n)) for i in range(n)):
                    self.bad("bit_state_not_computational")
                if n == 3:
                    self.bin("bits", tuple(rows[i][1] for i in range(n)))
            if s in ("rcs", "t:rcs", "global") and n >= 3 and a.rank == 0:
                # gauge-independent law for every N: a fixed non-identity Pauli is +-stabilizer of a
                # uniform pure stabilizer state with probability (2^N-1)/(4^N-1), both signs alike
                for k, P in enumerate(fixed_observables(n)):
                    self.bin("obs%d" % k, a.eigenvalue(P))
            if s in ("rps", "t:rps", "onsite") and n >= 2 and a.rank == 0:
                # product states: each site is in one of the 6 single-qubit stabilizer states,
                # uniformly, and any two sites are independent (gauge-independent: read off the group)
                site = []
                for q in range(n):
                    found = [(l, a.eigenvalue((tuple(l if i == q else 0 for i in range(n)), 0))) for l in (1, 2, 3)]
                    found = [f for f in found if f[1] is not None]
                    if len(found) != 1:
                        self.bad("product_state_site_not_pure", site=q)
                    site.append(found[0])
                for i in range(n):
                    if n >= 3:
                        self.bin("sitestate:q%d" % i, site[i])
                    for j in range(i + 1, n):
                        if n >= 3:
                            self.bin("sitestatepair:q%d:q%d" % (i, j), (site[i], site[j]))
                        # pooled over site pairs, few degrees of freedom (see 'siterel')
                        self.bin("sitestaterel", (site[i][0] == site[j][0], site[i][1] == site[j][1]))
            if s in ("global", "brickwall", "mcirc") and n == 2:
                self.bin("state", a.key())
            if s == "fcirc" and n == 2 and len(self.cfg["rand_qubits"]) == 2:
                self.bin("state", a.key())
            if s == "onsite" and n == 2:
                self.bin("state", a.key())
            return a.key()
        self.bad("unknown_kind")

    def finish(self):
        # resampling, judged behaviourally: one map-less gate / random circuit object applied
        # repeatedly must give many distinct actions (a cached map gives 1)
        s, n = self.cfg["sampler"], self.n
        k = self.oracle_steps
        d = len(self.distinct)
        need = None
        if s == "coinfix" and k >= 100:
            self.probes["coin_randomness_judged"] += 1
            for pos in self.undet:
                if len(self.seen[pos]) < 2:
                    raise Violation("c16.coin_not_random", {"sampler": s, "n": n, "position": pos, "calls": k,
                                                            "always": sorted(self.seen[pos]), "ctor": self.cfg["ctor"],
                                                            "r": self.cfg["r"], "order": self.cfg["order"],
                                                            "basis": self.cfg["basis"]})
        if s == "gate" and k >= 150:
            need = {1: 12, 2: int(0.7 * k)}.get(n)
        elif s in ("global", "brickwall", "mcirc") and n == 2 and k >= 150:
            need = 30
        elif s == "mcirc" and n >= 3 and k >= 150:
            need = 50
        elif s == "fcirc" and k >= 150:
            # a random gate on one qubit of a pure state gives at least 6 distinct states, on two or
            # more at least 60
            need = 4 if len(self.cfg["rand_qubits"]) == 1 else 25
        elif s == "onsite" and n == 2 and k >= 150:
            need = 18
        elif s in ("global", "brickwall", "onsite") and n >= 3 and k >= 150:
            need = 50
        if need is not None:
            self.probes["resampling_judged"] += 1
            if d < need:
                raise Violation("c16.not_resampled", {"sampler": s, "n": n, "calls": k, "distinct": d, "need": need,
                                                      "regime": self.cfg["regime"]})


def fixed_observables(n):
    """a few fixed Hermitian Paulis (letters 1=X 2=Y 3=Z) for the gauge-independent state law."""
    obs = [tuple(3 if i == 0 else 0 for i in range(n)),
           tuple(1 if i == n - 1 else 0 for i in range(n)),
           tuple(2 if i < 2 else 0 for i in range(n)),
           tuple(3 for i in range(n)),
           tuple((1, 3, 2)[i] if i < 3 else 0 for i in range(n))]
    return [(o, 0) for o in obs]


def pair_law(n, partner):
    """number of ordered pairs (P, Q) of N-qubit strings with letters (a, b) at one site, among the
    anticommuting pairs (partner) resp. the commuting pairs of distinct non-identity strings."""
    F = 4 ** (n - 1)
    A0, A1 = F * (F + 1) // 2, (F - 1) * F // 2     # pairs of rest strings that commute / anticommute
    cnt = {}
    for a in range(4):
        for b in range(4):
            c = 1 if (a and b and a != b) else 0
            if partner:
                cnt[(a, b)] = A0 if c else A1
            elif c:
                cnt[(a, b)] = A1
            elif a == 0 and b == 0:
                cnt[(a, b)] = A0 - (3 * F - 2)
            else:
                cnt[(a, b)] = A0 - F
    return cnt


# ----------------------------------------------------------------- batch level
EXPECTED_BINS = {
    ("class", 1, "cliff"): 6, ("class_x_sign", 1, "cliff"): 24, ("class", 2, "cliff"): 720, ("sign", 2, "any"): 16,
    ("first_pair", 3, "cliff"): 2016, ("sign", 3, "any"): 64,
    ("row0", 3, "cliff"): 63, ("row1", 3, "cliff"): 63, ("row2", 3, "cliff"): 63, ("row3", 3, "cliff"): 63,
    ("row4", 3, "cliff"): 63, ("row5", 3, "cliff"): 63,
    ("class", 1, "pauli"): 6, ("class", 2, "pauli"): 36, ("class", 3, "pauli"): 216, ("sign", 1, "any"): 4,
    ("state", 2, "cliffstate"): 60, ("state", 2, "productstate"): 36,
    ("state", 1, "pstate"): 6, ("state", 2, "pstate"): 36, ("state_r1", 2, "cliffstate"): 30, ("state_r1", 2, "pstate"): 6,
    ("bits", 3, "rbs"): 8, ("coins", 4, "coin"): 16, ("fixcoin", 1, "coinfix"): 2, ("fixcoin", 2, "coinfix"): 2,
    ("fixcoin", 3, "coinfix"): 2, ("fixcoin", 4, "coinfix"): 2,
    ("fixpair", 2, "coinfix"): 4, ("fixpair", 3, "coinfix"): 4, ("fixpair", 4, "coinfix"): 4,
    ("fixserial", 1, "coinfix"): 4, ("fixserial", 2, "coinfix"): 4, ("fixserial", 3, "coinfix"): 4, ("fixserial", 4, "coinfix"): 4, ("pair_joint", 2, "pair"): 120, ("pair_first", 2, "pair"): 15,
}


def _family(sampler):
    b = sampler.split(":")[-1]
    if b in ("rcm", "rcliff", "gate"):
        return "cliff"
    if b in ("rpm", "rpauli"):
        return "pauli"
    if b in ("rcs", "global", "brickwall", "mcirc", "fcirc"):
        return "cliffstate"
    if b == "onsite":
        return "productstate"
    if b == "rps":
        return "pstate"
    if b == "rbs":
        return "rbs"
    if b == "coin":
        return "coin"
    if b == "rpair":
        return "pair"
    return b


def _threshold(df, alpha=1e-9):
    from scipy.stats import chi2
    return float(chi2.isf(alpha, df))


def batch_oracles(merged, mode):
    tot = Counter()
    for p in merged["parts"]:
        for chunk in p["extra"]:
            if chunk:
                tot.update(chunk)
    groups = {}
    for (sampler, n, regime, stat, b), c in tot.items():
        groups.setdefault((sampler, n, regime, stat), Counter())[b] += c
    out = []
    evaluated = [0]
    for (sampler, n, regime, stat), cnt in sorted(groups.items(), key=lambda kv: repr(kv[0])):
        total = sum(cnt.values())
        name = "c16.uniform:%s:N%d:%s:%s" % (sampler, n, regime, stat)
        if stat == "product":
            # fraction of product Cliffords among 2-qubit Cliffords must be 36/720
            p0 = 36 / 720
            if total < 2000:
                continue
            k = cnt.get(True, 0)
            z = abs(k - total * p0) / (total * p0 * (1 - p0)) ** 0.5
            evaluated[0] += 1
            out.append((name, z <= 6.2, {"statistic": "product fraction (z-score)", "sampler": sampler, "N": n,
                                         "regime": regime, "n": total, "products": k, "expected": total * p0,
                                         "z": z, "threshold_sigma": 6.2}))
            continue
        fam = _family(sampler)
        bins = EXPECTED_BINS.get((stat, n, fam)) or EXPECTED_BINS.get((stat, n, "any"))
        if stat.startswith("signbit"):
            bins = 2
        if stat.startswith("site:") or stat.startswith("sitestate:"):
            bins = 6
        if stat.startswith("sitesign:"):
            bins = 24
        if stat.startswith("sitepair:") or stat.startswith("sitestatepair:"):
            bins = 36
        if stat in ("sign_repeat", "class_repeat"):
            fam0 = _family(sampler)
            if stat == "sign_repeat":
                p0 = 2.0 ** (-2 * n)
            else:
                nb = EXPECTED_BINS.get(("class", n, fam0))
                if nb is None:
                    continue
                p0 = 1.0 / nb
            if total * p0 < 5:
                continue
            k = cnt.get(True, 0)
            z = abs(k - total * p0) / (total * p0 * (1 - p0)) ** 0.5
            evaluated[0] += 1
            out.append((name, z <= 6.2, {"statistic": "frequency with which a draw repeats the previous draw (z-score)",
                                         "sampler": sampler, "N": n, "regime": regime, "stat": stat, "n": total,
                                         "repeats": k, "expected": total * p0, "z": z, "threshold_sigma": 6.2}))
            continue
        if stat.startswith("signletter:"):
            if total < 800:
                continue
            pI = (4.0 ** (n - 1) - 1) / (4.0 ** n - 1)
            pL = 4.0 ** (n - 1) / (4.0 ** n - 1)
            x2 = 0.0
            for k in (0, 2):
                for a in range(4):
                    e = total * 0.5 * (pI if a == 0 else pL)
                    x2 += (cnt.get((k, a), 0) - e) ** 2 / e
            thr = _threshold(7)
            evaluated[0] += 1
            if x2 > thr or stat.endswith(":r0"):
                out.append((name, x2 <= thr, {"statistic": "chi2 of (sign bit, first letter) of one image against independence",
                                             "sampler": sampler, "N": n, "regime": regime, "stat": stat, "n": total,
                                             "chi2": round(x2, 2), "threshold": round(thr, 2), "false_alarm_level": 1e-9}))
            continue
        if stat.startswith("pairletter:") or stat.startswith("signpair:") or stat.startswith("obs") or stat in ("siterel", "sitestaterel"):
            if stat == "sitestaterel":
                law = {(True, True): 1, (True, False): 1, (False, True): 2, (False, False): 2}
                what = "chi2 of (same axis, same sign) for two sites of a product state, pooled over site pairs"
            elif stat == "siterel":
                law = {(True, True): 1, (True, False): 1, (False, True): 1, (False, False): 3}
                what = "chi2 of (X letters equal, Z letters equal) for two sites of a product map, pooled over site pairs"
            elif stat.startswith("pairletter:"):
                _, ri, rj, _q = stat.split(":")
                i, j = int(ri[1:]), int(rj[1:])
                law = pair_law(n, partner=(i ^ 1) == j)
                what = "chi2 of the two letters of two images at one site against the uniform-pair law"
            elif stat.startswith("signpair:"):
                law = {(a, b): 1 for a in (0, 2) for b in (0, 2)}
                what = "chi2 of the sign bits of two images against independence"
            else:
                k = 2 ** n - 1
                law = {1: k, -1: k, None: 2 * (4 ** n - 1) - 2 * k}
                what = "chi2 of <P> in {+1,-1,0} for a fixed Pauli P against the uniform-state law"
            tot_w = float(sum(law.values()))
            if any(b not in law for b in cnt):
                out.append((name, False, {"statistic": "impossible class", "sampler": sampler, "N": n, "regime": regime,
                                          "stat": stat, "classes": sorted(map(repr, set(cnt) - set(law)))}))
                continue
            if min(total * w / tot_w for w in law.values() if w) < 20:
                continue
            x2 = sum((cnt.get(b, 0) - total * w / tot_w) ** 2 / (total * w / tot_w) for b, w in law.items() if w)
            thr = _threshold(sum(1 for w in law.values() if w) - 1)
            evaluated[0] += 1
            rep = stat in ("pairletter:r0:r1:q0", "pairletter:r0:r2:q0", "signpair:r0:r1", "siterel", "sitestaterel") or stat.startswith("obs")
            if x2 > thr or rep:   # report representatives, and all failures
                out.append((name, x2 <= thr, {"statistic": what, "sampler": sampler, "N": n, "regime": regime,
                                             "stat": stat, "n": total, "chi2": round(x2, 2), "threshold": round(thr, 2),
                                             "false_alarm_level": 1e-9}))
            continue
        if stat.startswith("letter:"):
            if total < 400:
                continue
            pI = (4.0 ** (n - 1) - 1) / (4.0 ** n - 1)
            pL = 4.0 ** (n - 1) / (4.0 ** n - 1)
            exp = {0: total * pI, 1: total * pL, 2: total * pL, 3: total * pL}
            x2 = sum((cnt.get(k, 0) - e) ** 2 / e for k, e in exp.items())
            thr = _threshold(3)
            evaluated[0] += 1
            if x2 > thr or stat.endswith(":r0:q%d" % (n - 1)):   # report one representative, and all failures
                out.append((name, x2 <= thr, {"statistic": "chi2 of the letter at one (row, site) against the uniform-image law",
                                             "sampler": sampler, "N": n, "regime": regime, "stat": stat, "n": total,
                                             "counts": [cnt.get(k, 0) for k in range(4)], "chi2": round(x2, 2),
                                             "threshold": round(thr, 2), "false_alarm_level": 1e-9}))
            continue
        if bins is None:
            continue
        if len(cnt) > bins:
            out.append((name, False, {"statistic": "number of classes", "sampler": sampler, "N": n, "regime": regime,
                                      "observed_classes": len(cnt), "possible": bins}))
            continue
        e = total / bins
        if e < 20:
            continue
        x2 = sum((c - e) ** 2 / e for c in cnt.values()) + (bins - len(cnt)) * e
        thr = _threshold(bins - 1)
        evaluated[0] += 1
        if stat.startswith("site") and x2 <= thr and not stat.endswith((":q0", ":q0:q1")):
            continue      # per-site statistics: one representative each is listed, and all failures
        out.append((name, x2 <= thr, {"statistic": "chi2", "sampler": sampler, "N": n, "regime": regime, "stat": stat,
                                      "n": total, "bins": bins, "bins_seen": len(cnt), "chi2": round(x2, 2),
                                      "threshold": round(thr, 2), "false_alarm_level": 1e-9}))
    out.append(("c16.statistics_summary", True,
                {"statistic": "summary", "statistics_evaluated": evaluated[0], "per_statistic_false_alarm_level": 1e-9,
                 "union_bound_false_alarm_per_batch": evaluated[0] * 1e-9,
                 "note": "per-(row,site) letter, pair-letter, sign-pair and per-site statistics are all evaluated; only representatives and failures are listed"}))
    return out


def batch_filter(rec):
    return {"sampler": rec["sampler"], "n": rec["N"], "regime": rec["regime"]}


# reach guard: a full-size batch in which one of these never fired means the workload or the
# harness has rotted (exit 2, never a pass)
REQUIRED_REACH = ['resampling_judged', 'coin_randomness_judged', 'reseed', 'stream_draw']
