"""C17 - copy is faithful and independent; queries have no side effects."""
import objworld

PROP_ID = "C17"
WARMUP_RUNS = 300   # chunks run in fresh forks: compile as many kernel signatures as possible in the parent


class RunClass(objworld.ObjWorld):
    prop_id = PROP_ID


def gen_config(rng, tier):
    n = rng.choice([1, 2, 2, 3, 3, 3, 4] + ([5] if tier == "thorough" else []))
    if rng.random() < 0.02:
        n = rng.choice([6, 7])      # a few runs on larger registers (word / byte boundaries, wider tableaux)
    ops = {"new": 2.0, "copy": 2.0, "query": 4.0, "inplace": 3.0, "scribble": 2.5}
    for k in list(ops):
        ops[k] *= rng.choice([0.5, 1.0, 2.0])
    faults = ["scribble"] if rng.random() < 0.85 else []
    return {"n": n, "steps": (lambda x: min(x, 14) if n >= 6 else x)(rng.randrange(6, 40) if tier != "thorough" else rng.randrange(6, 90)), "ops": ops, "faults": faults, "flags": ["c17"],
            "backend": "torch" if rng.random() < 0.3 else "numpy"}


# reach guard: a full-size batch in which one of these never fired means the workload or the
# harness has rotted (exit 2, never a pass)
REQUIRED_REACH = ['scribble', 'inplace:rotate', 'inplace:transform', 'inplace:measure', 'inplace:gate_apply', 'inplace:take', 'inplace:compose', 'inplace:embed', 'inplace:set_map', 'copy:state', 'copy:circuit', 'copy:poly', 'copy:gate', 'copy:layer', 'query_result_is_a_view']
