"""C06 - measurement follows the Born rule and the projection postulate."""
import stateworld

PROP_ID = "C06"
OWN_PREFIX = "c06."


class RunClass(stateworld.StateWorld):
    prop_id = PROP_ID


def gen_config(rng, tier):
    n = rng.choice([1, 2, 2, 2, 3, 3, 3, 3, 4, 4, 4, 5, 6] if tier == "thorough" else
                   [1, 2, 2, 2, 3, 3, 3, 3, 4, 4, 5])
    ops = {"new": 1.0, "measure": 4.0}
    for k, w in (("rot", 2.0), ("tmap", 1.5), ("gate", 1.0), ("copy", 0.5), ("setr", 0.7),
                 ("remeasure", 2.0), ("resample", 0.6), ("relayout", 0.5)):
        if rng.random() < 0.75:
            ops[k] = w * rng.choice([0.5, 1.0, 2.0])
    faults = [f for f in ("coin_force", "remeasure", "view_operand") if rng.random() < 0.7]
    return {"n": n, "steps": rng.randrange(4, 30) if tier != "thorough" else rng.randrange(4, 70), "ops": ops, "faults": faults,
            "flags": ["c06"], "max_slots": rng.choice([1, 2, 3])}


def batch_oracles(merged, mode):
    """batch-level statistical oracle: fairness of undetermined outcomes in fair runs."""
    out = []
    n = merged["stats"].get("fair_coins", 0)
    ones = merged["stats"].get("fair_ones", 0)
    if n >= 1000:
        sigma = (n ** 0.5) / 2
        z = abs(ones - n / 2) / sigma
        rec = {"statistic": "fair_outcome_ones", "n": n, "ones": ones, "z": z, "threshold_sigma": 6.2}
        out.append(("c06.coin_fairness", z <= 6.2, rec))
    return out


# reach guard: a full-size batch in which one of these never fired means the workload or the
# harness has rotted (exit 2, never a pass)
REQUIRED_REACH = ['coin_force', 'remeasure', 'resample', 'view_operand', 'pivot:standby_stabilizer', 'pivot:standby_destabilizer', 'rank_reduced_by_measurement', 'deterministic_outcome_minus', 'obs_anticommutes_standby_and_active']
