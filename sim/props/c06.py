"""C06 - measurement follows the Born rule and the projection postulate."""
import stateworld

PROP_ID = "C06"
WARMUP_RUNS = 150   # chunks run in fresh forks: kernel signatures must be compiled in the parent
OWN_PREFIX = "c06."


class RunClass(stateworld.StateWorld):
    prop_id = PROP_ID


def gen_config(rng, tier):
    n = rng.choice([1, 2, 2, 2, 3, 3, 3, 3, 4, 4, 4, 5, 6] if tier == "thorough" else
                   [1, 2, 2, 2, 3, 3, 3, 3, 4, 4, 5])
    if rng.random() < 0.02:
        n = rng.choice([7, 8, 9])      # a few runs on larger registers (word / byte boundaries, wider tableaux)
    ops = {"new": 1.0, "measure": 4.0}
    for k, w in (("rot", 2.0), ("tmap", 1.5), ("gate", 1.0), ("copy", 0.5), ("setr", 0.7),
                 ("remeasure", 2.0), ("resample", 0.6), ("relayout", 0.5)):
        if rng.random() < 0.75:
            ops[k] = w * rng.choice([0.5, 1.0, 2.0])
    faults = [f for f in ("coin_force", "remeasure", "view_operand") if rng.random() < 0.7]
    return {"n": n, "steps": (lambda x: min(x, 14) if n >= 6 else x)(rng.randrange(4, 30) if tier != "thorough" else rng.randrange(4, 70)), "ops": ops, "faults": faults,
            "flags": ["c06"], "max_slots": rng.choice([1, 2, 3])}


def batch_oracles(merged, mode):
    """batch-level statistical oracles over fair (not dictated) runs: fairness of undetermined
    outcomes overall and per stratum (first / later entry of a list, rank-reducing / rank-keeping
    measurement), and independence of consecutive undetermined outcomes within one call."""
    out = []
    st = merged["stats"]

    def ztest(name, n, ones):
        if n >= 1000:
            z = abs(ones - n / 2) / ((n ** 0.5) / 2)
            out.append((name, z <= 6.2, {"statistic": "ones among fair undetermined outcomes", "n": n, "ones": ones,
                                         "z": z, "threshold_sigma": 6.2}))
    ztest("c06.coin_fairness", st.get("fair_coins", 0), st.get("fair_ones", 0))
    for stratum in ("first", "later", "rank_reducing", "rank_keeping"):
        ztest("c06.coin_fairness:" + stratum, st.get("fair_coins:" + stratum, 0), st.get("fair_ones:" + stratum, 0))
    cells = [st.get("fair_pair:%d%d" % (a, b), 0) for a in (0, 1) for b in (0, 1)]
    n = sum(cells)
    if n >= 2000:
        e = n / 4.0
        x2 = sum((c - e) ** 2 / e for c in cells)
        out.append(("c06.coin_independence", x2 <= 44.85,
                    {"statistic": "chi2 (3 dof) of consecutive undetermined outcomes within one call", "n": n,
                     "cells_00_01_10_11": cells, "chi2": x2, "threshold": 44.85, "false_alarm_level": 1e-9}))
    return out


# reach guard: a full-size batch in which one of these never fired means the workload or the
# harness has rotted (exit 2, never a pass)
REQUIRED_REACH = ['coin_force', 'remeasure', 'resample', 'view_operand', 'pivot:standby_stabilizer', 'pivot:standby_destabilizer', 'rank_reduced_by_measurement', 'deterministic_outcome_minus', 'obs_anticommutes_standby_and_active']


def warm_extra():
    stateworld.warm_layouts()
