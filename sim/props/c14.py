"""C14 - mid-circuit measurement and post-selection follow the quantum trajectory."""
import stateworld

PROP_ID = "C14"
WARMUP_RUNS = 150   # chunks run in fresh forks: kernel signatures must be compiled in the parent
OWN_PREFIX = "c14."


class RunClass(stateworld.StateWorld):
    prop_id = PROP_ID


def gen_config(rng, tier):
    n = rng.choice([1, 2, 2, 3, 3, 3, 4, 4] + ([5] if tier == "thorough" else []))
    if rng.random() < 0.02:
        n = rng.choice([6, 7])      # a few runs on larger registers (word / byte boundaries, wider tableaux)
    ops = {"new": 1.0, "cnew": 1.5, "cfwd": 3.0, "cbwd": 2.0, "postselect": 2.0, "mlayer": 1.5}
    for k, w in (("rot", 1.5), ("tmap", 1.0), ("gate", 0.7), ("copy", 0.4), ("setr", 0.5),
                 ("ctake", 1.0), ("ccompile", 0.5), ("measure", 0.5), ("relayout", 0.3)):
        if rng.random() < 0.7:
            ops[k] = w * rng.choice([0.5, 1.0, 2.0])
    faults = [f for f in ("coin_force", "rejected_op") if rng.random() < 0.75]
    return {"n": n, "steps": (lambda x: min(x, 14) if n >= 6 else x)(rng.randrange(4, 30) if tier != "thorough" else rng.randrange(4, 70)), "ops": ops, "faults": faults,
            "flags": ["c14"], "max_slots": rng.choice([1, 2, 3])}


def batch_oracles(merged, mode):
    out = []
    n = merged["stats"].get("fair_coins", 0)
    ones = merged["stats"].get("fair_ones", 0)
    if n >= 1000:
        sigma = (n ** 0.5) / 2
        z = abs(ones - n / 2) / sigma
        out.append(("c14.coin_fairness", z <= 6.2,
                    {"statistic": "fair_outcome_ones", "n": n, "ones": ones, "z": z, "threshold_sigma": 6.2}))
    return out


# reach guard: a full-size batch in which one of these never fired means the workload or the
# harness has rotted (exit 2, never a pass)
REQUIRED_REACH = ['coin_force', 'rejected_op', 'backward_impossible_record', 'impossible_postselection', 'measure_layer_on_mixed_state', 'circuit_forward_on_mixed_state', 'backward_with_record:own', 'backward_with_record:true', 'backward_missing_or_wrong_length_record', 'determined_midcircuit_outcome']


def warm_extra():
    stateworld.warm_layouts()
