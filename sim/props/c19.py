"""C19 - stabilizer-group sampling and classical-shadow snapshots agree with the state.

Lazy generators (ClassicalShadow.snapshots / circuit.povm) are resumed by the simulator,
which interleaves foreground operations between resumptions or abandons the generator."""
from collections import Counter

import numpy as np

import refmodel as rm
import seams
import sut
import stateworld
from core import Violation, Skip, new_entropy

PROP_ID = "C19"

BATCH = Counter()


def drain_batch_stats():
    global BATCH
    out = BATCH
    BATCH = Counter()
    return out


class PovmProxy:
    """duck-typed measurement circuit (the seam ClassicalShadow already has: it only uses
    .N and .povm()): forwards to the real circuit and records every POVM state handed out."""

    def __init__(self, circ, log):
        self._circ = circ
        self.N = circ.N
        self._log = log

    def povm(self, nsample):
        for st in self._circ.povm(nsample):
            self._log.append((np.array(st.gs).copy(), np.array(st.ps).copy(), st.r))
            yield st

    def __repr__(self):
        return "PovmProxy(%r)" % (self._circ,)


class RunClass(stateworld.StateWorld):
    prop_id = PROP_ID

    def __init__(self, cfg):
        super().__init__(cfg)
        self.own = "c19"
        self.shadows = {}

    def propose(self, rng):
        if not self.slots:
            return self._p_new(rng)
        kinds = self.cfg["ops"]
        for _ in range(20):
            kind = rng.choices(list(kinds), weights=[kinds[k] for k in kinds])[0]
            op = getattr(self, "_p_" + kind)(rng)
            if op is not None:
                return op
        return self._p_new(rng)

    def apply(self, op):
        return getattr(self, "_a_" + op["op"])(op)

    # ---------------------------------------------------------------- sample
    def _p_sample(self, rng):
        return {"op": "sample", "slot": self._pick(rng), "L": rng.choice([0, 1, 2, 3, 4, 5, 5, 6, 8, 8, 8]),
                "entropy": new_entropy(rng)}

    def _a_sample(self, op):
        name, st = self._state(op)
        m = self.model[name]
        before = sut.raw_state(st)
        rows = sut.tableau_rows(st)
        r = int(st.r)
        k = self.n - r
        seams.prepare_call(op)
        try:
            res = st.sample(op["L"])
        except Exception as e:
            raise Violation("c19.sample_raised", {"exc": repr(e), "L": op["L"]})
        try:
            got = sut.list_to_ref(res)
        except Exception as e:
            raise Violation("c19.sample_malformed", {"exc": repr(e)})
        if len(got) != op["L"]:
            raise Violation("c19.sample_count", {"want": op["L"], "got": len(got)})
        if sut.raw_state(st) != before:
            raise Violation("c19.sample_changed_state", {})
        index = None
        if 1 <= k <= 4:
            # which subset of the active generators is each sample? (harness arithmetic)
            index = {}
            for mask in range(1 << k):
                acc = rm.pident(self.n)
                for j in range(k):
                    if (mask >> j) & 1:
                        acc = rm.pmul(acc, rows[r + j])
                index[acc[0]] = mask
        for p in got:
            if p[1] not in (0, 2):
                raise Violation("c19.sample_not_hermitian", {"sample": rm.pstr(p)})
            s = m.grp.get(p[0])
            if s is None:
                raise Violation("c19.sample_not_in_group", {"sample": rm.pstr(p)})
            if s != rm.sign_of(p):
                raise Violation("c19.sample_wrong_sign", {"sample": rm.pstr(p)})
            if index is not None:
                BATCH[("sample", k, index[p[0]])] += 1
        if index is not None and got:
            # the rows of one call are independent: generator j is missing from ALL L rows with
            # probability 2^-L exactly (a call whose rows are coupled shows here, not in the
            # pooled frequencies)
            masks = [index[p[0]] for p in got]
            for j in range(k):
                BATCH[("absent", k, len(got), j, all(not (mk >> j) & 1 for mk in masks))] += 1
        self.oracle_steps += 1
        self.nontrivial = True
        self.stats["sample_calls"] += 1
        self.stats["samples"] += len(got)
        self.trans.add(hash(("sample", k, op["L"])) & 0xFFFFFFFFFFFF)
        return sut.strs(got)

    # ------------------------------------------------------- density matrix
    def _p_density(self, rng):
        return {"op": "density", "slot": self._pick(rng)}

    def _a_density(self, op):
        name, st = self._state(op)
        m = self.model[name]
        before = sut.raw_state(st)
        try:
            dm = st.density_matrix
            gs, ps, cs = np.array(dm.gs), np.array(dm.ps), np.array(dm.cs)
        except Exception as e:
            raise Violation("c19.density_matrix_raised", {"exc": repr(e)})
        if sut.raw_state(st) != before:
            raise Violation("c19.density_matrix_changed_state", {})
        seen = {}
        for i in range(gs.shape[0]):
            p = rm.from_gp(gs[i], int(ps[i]) % 4)
            w = complex(cs[i]) * (1j ** p[1])
            if p[0] in seen:
                raise Violation("c19.density_matrix_duplicate_term", {"term": rm.pstr(p)})
            seen[p[0]] = w
        if set(seen) != set(m.grp):
            raise Violation("c19.density_matrix_terms", {"want": len(m.grp), "got": len(seen)})
        for l, w in seen.items():
            if abs(w - m.grp[l] * 2.0 ** (-self.n)) > 1e-12:
                raise Violation("c19.density_matrix_weight", {"term": rm.pstr((l, 0)), "got": [w.real, w.imag],
                                                              "want": m.grp[l] * 2.0 ** (-self.n)})
        self.oracle_steps += 1
        self.nontrivial = True
        self.stats["density_matrix"] += 1
        return len(seen)

    # ------------------------------------------------------------- shadows
    def _p_shadow_new(self, rng):
        n = self.n
        kinds = ["onsite", "global", "fixed", "fixed"]
        if n % 2 == 0:
            kinds.append("brickwall")
        kind = rng.choice(kinds)
        op = {"op": "shadow_new", "name": rng.choice(["h0", "h1"]), "slot": self._pick(rng),
              "circ": kind, "nsample": rng.randrange(1, 6)}
        if kind == "brickwall":
            op["depth"] = rng.randrange(1, 4)
        if kind == "fixed":
            op["cls"] = rng.choice(["CliffordCircuit", "Circuit"])
            op["prog"] = [self._gate_spec(rng, allow_random=False, nmax=3) for _ in range(rng.randrange(0, 6))]
            op["compile"] = rng.random() < 0.3
        return op

    def _a_shadow_new(self, op):
        pc = self.pc
        name, st = self._state(op)
        n = self.n
        kind = op["circ"]
        refs = None
        if kind == "onsite":
            circ = pc.onsite_rcc(n)
        elif kind == "global":
            circ = pc.global_rcc(n)
        elif kind == "brickwall":
            if n % 2:
                raise Skip()
            circ = pc.brickwall_rcc(n, op["depth"])
        else:
            circ = pc.identity_circuit(n) if op["cls"] == "CliffordCircuit" else pc.Circuit(n)
            refs = []
            for spec in op["prog"]:
                gate, ref = self.build_gate(spec)
                circ.take(gate)
                refs.append(ref)
            if op.get("compile"):
                circ.compile()
        log = []
        proxy = PovmProxy(circ, log)
        try:
            cs = pc.ClassicalShadow(st, proxy)
            gen = cs.snapshots(op["nsample"])
        except Exception as e:
            raise Violation("c19.shadow_construct_raised", {"exc": repr(e)})
        self.shadows[op["name"]] = {"gen": gen, "base": name, "base_obj": st, "circ": circ, "refs": refs, "log": log,
                                    "n": op["nsample"], "got": 0, "kind": kind, "closed": False, "cs": cs}
        return kind

    def _p_shadow_regen(self, rng):
        """another snapshots() generator of an EXISTING ClassicalShadow object - while its first
        generator is suspended at a yield, after it was closed, or after it ran out: runs of one
        shadow are independent of each other."""
        if not self.shadows:
            return None
        return {"op": "shadow_regen", "src": rng.choice(sorted(self.shadows)), "name": rng.choice(["h0", "h1", "h2"]),
                "nsample": rng.randrange(1, 5)}

    def _a_shadow_regen(self, op):
        if op["src"] not in self.shadows:
            raise Skip()
        h = self.shadows[op["src"]]
        if h["base"] not in self.slots or self.slots[h["base"]] is not h["base_obj"]:
            raise Skip()
        try:
            gen = h["cs"].snapshots(op["nsample"])
        except Exception as e:
            raise Violation("c19.shadow_construct_raised", {"exc": repr(e), "on": "second generator"})
        new = dict(h)
        new.update({"gen": gen, "n": op["nsample"], "got": 0, "closed": False, "interleaved": None})
        self.shadows[op["name"]] = new
        self.stats["config:second_generator_of_a_shadow"] += 1
        return h["kind"]

    def _p_shadow_next(self, rng):
        live = [h for h in sorted(self.shadows) if not self.shadows[h]["closed"]]
        if not live:
            return None
        return {"op": "shadow_next", "name": rng.choice(live), "entropy": new_entropy(rng)}

    def _a_shadow_next(self, op):
        if op["name"] not in self.shadows:
            raise Skip()
        h = self.shadows[op["name"]]
        if h["closed"] or h["base"] not in self.slots:
            raise Skip()
        if self.slots[h["base"]] is not h["base_obj"]:
            h["closed"] = True   # the slot was re-used for another object: the shadow is orphaned
            raise Skip()
        base = self.slots[h["base"]]
        bm = self.model[h["base"]]
        before = sut.raw_state(base)
        nlog = len(h["log"])
        seams.prepare_call(op)
        try:
            snap = next(h["gen"])
        except StopIteration:
            h["closed"] = True
            if h["got"] != h["n"]:
                raise Violation("c19.snapshot_count", {"want": h["n"], "got": h["got"]})
            self.probes["generator_exhausted"] += 1
            return "exhausted"
        except Exception as e:
            raise Violation("c19.snapshot_raised", {"exc": repr(e), "circ": h["kind"]})
        h["got"] += 1
        if h["got"] > h["n"]:
            raise Violation("c19.snapshot_count", {"want": h["n"], "got": h["got"]})
        if sut.raw_state(base) != before:
            raise Violation("c19.snapshot_changed_base_state", {"circ": h["kind"]})
        if snap is base:
            raise Violation("c19.snapshot_is_base_object", {})
        try:
            sm = rm.alpha(snap.gs, snap.ps, snap.r, self.n)
        except rm.InvariantBroken as e:
            raise Violation("c19.snapshot_not_a_state", {"what": e.what, "circ": h["kind"]})
        except Exception as e:
            raise Violation("c19.snapshot_not_a_state", {"what": repr(e), "circ": h["kind"]})
        if len(h["log"]) != nlog + 1:
            raise Violation("c19.snapshot_without_povm", {"povms": len(h["log"]) - nlog})
        pgs, pps, pr = h["log"][-1]
        try:
            pm = rm.alpha(pgs, pps, pr, self.n)
        except Exception as e:
            raise Violation("c19.povm_not_a_state", {"what": repr(e), "circ": h["kind"]})
        ov = bm.overlap(sm)
        if not ov > 0:
            raise Violation("c19.snapshot_zero_overlap", {"overlap": ov, "circ": h["kind"]})
        for l in pm.grp:
            if l not in sm.grp:
                raise Violation("c19.snapshot_not_stabilized_by_povm", {"element": rm.pstr((l, 0)), "circ": h["kind"]})
        if h["refs"] is not None and not h.get("stale"):
            want = rm.RefState.from_generators(self.n, [(tuple(3 if i == q else 0 for i in range(self.n)), 0)
                                                         for q in range(self.n)])
            for rg in reversed(h["refs"]):
                want = want.apply_map(rg.bwd, rg.qubits)
            if want != pm:
                raise Violation("c19.povm_not_back_evolved_basis", {"ngates": len(h["refs"])})
        self.oracle_steps += 1
        self.nontrivial = True
        self.stats["snapshots:" + h["kind"]] += 1
        if bm.rank > 0:
            self.probes["snapshot_of_mixed_base"] += 1
        if h.get("interleaved"):
            self.stats["interleave"] += 1
            self.probes["snapshot_after_foreground_op:" + h["interleaved"]] += 1
            h["interleaved"] = None
        if any(o is not h and o["cs"] is h["cs"] and not o["closed"] and 0 < o["got"] for o in self.shadows.values()):
            self.stats["interleave"] += 1
            self.probes["snapshot_while_sibling_generator_suspended"] += 1
        self.states.add(stateworld._hash_state(sm))
        self.trans.add(hash(("snap", h["kind"], bm.rank)) & 0xFFFFFFFFFFFF)
        return sut.strs(sut.tableau_rows(snap))

    def _p_shadow_close(self, rng):
        live = [h for h in sorted(self.shadows) if not self.shadows[h]["closed"]]
        if not live:
            return None
        return {"op": "shadow_close", "name": rng.choice(live)}

    def _a_shadow_close(self, op):
        if op["name"] not in self.shadows:
            raise Skip()
        h = self.shadows[op["name"]]
        if h["closed"]:
            raise Skip()
        base = self.slots.get(h["base"])
        before = sut.raw_state(base) if base is not None else None
        try:
            h["gen"].close()
        except Exception as e:
            raise Violation("c19.generator_close_raised", {"exc": repr(e)})
        h["closed"] = True
        if base is not None and sut.raw_state(base) != before:
            raise Violation("c19.snapshot_changed_base_state", {"on": "close"})
        self.stats["interleave"] += 1
        self.probes["generator_abandoned"] += 1
        return "closed"

    # interleaved foreground operations -----------------------------------
    def _mark(self, what, slot=None):
        for h in self.shadows.values():
            if not h["closed"] and h["got"] > 0:
                h["interleaved"] = what

    def _p_fg_base(self, rng):
        """foreground operation on the base state itself or on a copy of it."""
        live = [h for h in sorted(self.shadows) if not self.shadows[h]["closed"]]
        if not live:
            return None
        h = self.shadows[rng.choice(live)]
        if h["base"] not in self.slots or self.slots[h["base"]] is not h["base_obj"]:
            return None
        if rng.random() < 0.5:
            op = self._p_rot(rng)
            op["slot"] = h["base"]
            op["fg"] = "base_rotated"
            return op
        return {"op": "copy", "src": h["base"], "slot": self._free_slot(rng), "fg": "base_copied"}

    def _p_fg_circ(self, rng):
        live = [h for h in sorted(self.shadows) if not self.shadows[h]["closed"] and self.shadows[h]["refs"] is not None]
        if not live:
            return None
        return {"op": "fg_take", "name": rng.choice(live), "spec": self._gate_spec(rng, allow_random=False, nmax=3)}

    def _a_fg_take(self, op):
        if op["name"] not in self.shadows:
            raise Skip()
        h = self.shadows[op["name"]]
        if h["refs"] is None or h["closed"]:
            raise Skip()
        gate, ref = self.build_gate(op["spec"])
        compiled = getattr(h["circ"], "forward_map", None) is not None or any(
            getattr(l, "forward_map", None) is not None for l in h["circ"].layers_forward())
        h["circ"].take(gate)
        h["refs"].append(ref)
        if compiled:
            for o in self.shadows.values():     # (generators of the same shadow share the circuit)
                if o["circ"] is h["circ"]:
                    o["stale"] = True
        self._mark("circuit_extended")
        return "ok"

    def _a_rot(self, op):
        r = super()._a_rot(op)
        if op.get("fg"):
            self._mark(op["fg"])
        else:
            self._mark("other_object")
        return r

    def _a_copy(self, op):
        r = super()._a_copy(op)
        self._mark(op.get("fg") or "other_object")
        return r

    def _a_measure(self, op):
        r = super()._a_measure(op)
        self._mark("other_object")
        return r


def gen_config(rng, tier):
    n = rng.choice([1, 2, 2, 3, 3, 3, 4, 4] + ([5, 6] if tier == "thorough" else [5]))
    ops = {"new": 1.0, "sample": 3.0, "density": 1.0, "shadow_new": 1.5, "shadow_next": 5.0}
    if rng.random() < 0.6:
        ops["shadow_regen"] = rng.choice([0.5, 1.0, 2.0])
    for k, w in (("rot", 1.0), ("tmap", 0.7), ("measure", 1.0), ("setr", 0.7), ("copy", 0.3),
                 ("shadow_close", 0.4), ("fg_base", 1.0), ("fg_circ", 0.6), ("gate", 0.5)):
        if rng.random() < 0.7:
            ops[k] = w * rng.choice([0.5, 1.0, 2.0])
    steps = rng.randrange(5, 40) if tier != "thorough" else rng.randrange(5, 90)
    if rng.random() < 0.03:
        # a few runs on 9 and 10 qubits (more than 8 active generators): expansion and sampling only
        n = rng.choice([9, 10])
        ops = {"new": 1.0, "density": 2.0, "sample": 2.0, "setr": 0.5}
        steps = min(steps, 6)
    return {"n": n, "steps": steps, "ops": ops, "faults": ["coin_force"] if rng.random() < 0.3 else [],
            "flags": ["c19"], "max_slots": rng.choice([1, 2, 3])}


def _chi2_threshold(df, alpha=1e-9):
    from scipy.stats import chi2
    return float(chi2.isf(alpha, df))


def batch_oracles(merged, mode):
    """uniformity of sample() over the 2^(N-r) group elements, per k = N-r in 1..4."""
    tot = Counter()
    for p in merged["parts"]:
        for chunk in p["extra"]:
            if chunk:
                tot.update(chunk)
    out = []
    calls = {}
    for key, c in tot.items():
        if key[0] == "absent":
            _, k, L, j, ab = key
            d = calls.setdefault((k, L, j), [0, 0])
            d[0] += c
            d[1] += c if ab else 0
    for (k, L, j), (ncalls, nabs) in sorted(calls.items()):
        p0 = 2.0 ** (-L)
        if ncalls * p0 < 20:
            continue
        z = abs(nabs - ncalls * p0) / (ncalls * p0 * (1 - p0)) ** 0.5
        if z <= 6.2 and not (j == 0 and L in (1, 5)):
            continue      # all are evaluated; one representative per (k, L in {1,5}) and every failure is listed
        out.append(("c19.sample_rows_independent_k%d_L%d_g%d" % (k, L, j), z <= 6.2,
                    {"statistic": "number of sample(L) calls in which generator j occurs in no row (z-score against 2^-L)",
                     "k": k, "L": L, "generator": j, "calls": ncalls, "observed": nabs, "expected": ncalls * p0,
                     "z": z, "threshold_sigma": 6.2}))
    for k in (1, 2, 3, 4):
        bins = [tot.get(("sample", k, i), 0) for i in range(1 << k)]
        n = sum(bins)
        if n < 50 * (1 << k):
            continue
        e = n / (1 << k)
        x2 = sum((b - e) ** 2 / e for b in bins)
        thr = _chi2_threshold((1 << k) - 1)
        out.append(("c19.sample_uniformity_k%d" % k, x2 <= thr,
                    {"statistic": "chi2 of sample() over the 2^k generator subsets", "k": k, "n": n,
                     "chi2": x2, "threshold": thr, "false_alarm_level": 1e-9, "bins": bins}))
    return out


# reach guard: a full-size batch in which one of these never fired means the workload or the
# harness has rotted (exit 2, never a pass)
REQUIRED_REACH = ['interleave', 'samples', 'density_matrix', 'snapshots:fixed', 'snapshots:global', 'snapshots:onsite', 'generator_abandoned', 'snapshot_of_mixed_base', 'snapshot_after_foreground_op:base_rotated', 'snapshot_after_foreground_op:circuit_extended']


def warm_extra():
    stateworld.warm_layouts()
