"""C09 - a circuit acts as the ordered product of its gates."""
import circworld
import seams

PROP_ID = "C09"


class RunClass(circworld.CircWorld):
    prop_id = PROP_ID


def gen_config(rng, tier):
    n = rng.choice([1, 2, 2, 3, 3, 3, 4, 4, 5] + ([6] if tier == "thorough" else []))
    wide = False
    if rng.random() < 0.02:
        n = rng.choice([7, 8, 9])      # a few runs on larger registers (word / byte boundaries, wider tableaux)
    elif rng.random() < 0.03 and seams.MODE == "JIT":
        n = rng.choice([33, 65, 66, 72])   # qubit indices beyond 32 / 64 (operator probes only)
        wide = True
    ops = {"ccnew": 0.6, "take": 5.0, "fwd": 3.0}
    for k, w in (("compose", 1.0), ("ccopy", 0.8), ("compile", 0.8), ("lcompile", 0.8), ("gcompile", 0.5),
                 ("badcompose", 0.2)):
        if rng.random() < 0.7:
            ops[k] = w * rng.choice([0.5, 1.0, 2.0])
    faults = [f for f in ("rejected_op",) if rng.random() < 0.7]
    hot = sorted(set([0, n - 1, n - 2, min(63, n - 3), min(64, n - 1), 31, 32] + [rng.randrange(n) for _ in range(2)])) if wide else None
    return {"hot": hot, "n": n, "steps": (lambda x: min(x, 14) if n >= 6 else x)(rng.randrange(5, 40) if tier != "thorough" else rng.randrange(5, 90)), "ops": ops, "faults": faults, "flags": ["c09"],
            "max_gates": rng.choice([4, 8, 12] if tier != "thorough" else [4, 8, 12, 24]), "backend": "torch" if rng.random() < 0.15 and not wide else "numpy"}


# reach guard: a full-size batch in which one of these never fired means the workload or the
# harness has rotted (exit 2, never a pass)
REQUIRED_REACH = ['gate_slid_back_2+_layers', 'forward_through_circuit_map', 'forward_through_layer_compiled_only', 'compose_of_compiled_circuit', 'rejected_op', 'config:copy', 'config:compose', 'compile_with_3+_layers']


def warm_extra():
    circworld.warm_layouts()
