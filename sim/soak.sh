#!/bin/bash
# soak: quick tier at several seeds, then thorough tier; prints one line per check
cd "$(dirname "$0")/.."
export VERIF_EVIDENCE_DIR=${VERIF_EVIDENCE_DIR:-/tmp/verif-soak-ev}
for seed in ${SOAK_SEEDS:-1 2 3 4 5 6 7 8}; do
  for p in C05 C06 C09 C10 C14 C16 C17 C19; do
    out=$(VERIF_SEED=$seed timeout 1800 /venv/bin/python sim/cli.py check $p --tier quick 2>&1); rc=$?
    echo "quick seed=$seed $p rc=$rc $(echo "$out" | grep -E 'VIOLATION|HARNESS|oracle=' | head -3 | tr '\n' ' ' | cut -c1-300)"
  done
done
for p in C05 C06 C09 C10 C14 C16 C17 C19; do
  out=$(VERIF_SEED=0 timeout 7200 /venv/bin/python sim/cli.py check $p --tier thorough 2>&1); rc=$?
  echo "thorough seed=0 $p rc=$rc $(echo "$out" | grep -E 'runs=|VIOLATION|HARNESS|oracle=' | head -4 | tr '\n' ' ' | cut -c1-400)"
done
rm -rf /tmp/verif-soak-ev
