#!/venv/bin/python
"""Entry point.  Usage (cwd = /verif):

  sim/cli.py check C06 --tier quick|thorough
  sim/cli.py replay replays/C06-0-123.json
  sim/cli.py selftest model|determinism|sensitivity

Exit 0: property held on everything explored (KNOWN-FINDING lines allowed)
Exit 1: VIOLATION property=<id> replay=<path>
Exit 2: harness error (never a pass, never a violation)
"""
import argparse
import importlib
import json
import os
import pickle
import shutil
import subprocess
import sys
import tempfile
import time
import traceback

HERE = os.path.dirname(os.path.abspath(__file__))
VERIF = os.path.dirname(HERE)
sys.path.insert(0, HERE)

PY = sys.executable
EVID_DIR = os.environ.get("VERIF_EVIDENCE_DIR") or os.path.join(VERIF, "evidence")
REPLAY_DIR = os.path.join(os.environ["VERIF_EVIDENCE_DIR"], "replays") if os.environ.get("VERIF_EVIDENCE_DIR") \
    else os.path.join(VERIF, "replays")

# tier sizes: (runs INTERP, runs JIT, workers INTERP, workers JIT)
SIZES = {
    "C05": {"quick": (6000, 12000), "thorough": (60000, 300000)},
    "C06": {"quick": (6000, 12000), "thorough": (60000, 300000)},
    "C14": {"quick": (5000, 9000), "thorough": (50000, 250000)},
    "C09": {"quick": (4000, 9000), "thorough": (40000, 200000)},
    "C10": {"quick": (4000, 9000), "thorough": (40000, 200000)},
    "C17": {"quick": (4000, 10000), "thorough": (40000, 160000)},
    "C19": {"quick": (3000, 9000), "thorough": (30000, 200000)},
    "C16": {"quick": (200, 1600), "thorough": (2000, 30000)},
}


def prop_module(pid):
    return importlib.import_module("props." + pid.lower())


def child_env(mode):
    env = dict(os.environ)
    env["PYTHONHASHSEED"] = "0"
    env["NUMBA_DISABLE_JIT"] = "1" if mode == "INTERP" else "0"
    env["OMP_NUM_THREADS"] = "1"
    env["MKL_NUM_THREADS"] = "1"
    env["PYTHONWARNINGS"] = "ignore"
    return env


# ------------------------------------------------------------------ tranche
def guarded(fn, factor=1):
    """pre-step runs must never block the tranche: same wall-clock guard as batch runs,
    every outcome (violation, exception, timeout) is ignored here."""
    import signal
    import core
    signal.signal(signal.SIGVTALRM, core._alarm)
    signal.setitimer(signal.ITIMER_VIRTUAL, factor * core.hang_limit())
    try:
        fn()
    except core.RunTimeout:
        pass
    except Exception:
        pass
    finally:
        signal.setitimer(signal.ITIMER_VIRTUAL, 0)


def pre_steps(mod, mode, tier):
    """deterministic steps every tranche parent performs before forking its chunk processes
    (and every chunk replay performs before its runs): JIT warm-up so that children inherit
    compiled kernels; INTERP line-reach probe.  Returns the reach table (INTERP) or None."""
    import core
    reach = None
    if mode == "JIT" and not getattr(mod, "NO_WARMUP", False):
        nwarm = getattr(mod, "WARMUP_RUNS", 60)
        for i in range(nwarm):
            rng = core.run_rng("warmup", mod.PROP_ID, i)
            cfg = mod.gen_config(rng, tier)
            guarded(lambda: core.execute(mod.RunClass, cfg, rng=rng, max_steps=min(cfg["steps"], 40)))
        if hasattr(mod, "warm_extra"):
            guarded(mod.warm_extra, factor=10)     # warm-up must never decide anything: all outcomes ignored
        if hasattr(mod, "drain_batch_stats"):
            mod.drain_batch_stats()
    if mode == "INTERP" and hasattr(sys, "monitoring") and not os.environ.get("VERIF_FILTER"):
        reach = line_reach(mod, tier)
    return reach


def cmd_tranche(a):
    import core
    import seams
    assert seams.MODE == a.mode, (seams.MODE, a.mode)
    mod = prop_module(a.prop)
    t0 = time.time()
    if hasattr(mod, "setup"):
        mod.setup()
    reach = pre_steps(mod, a.mode, a.tier)
    t_warm = time.time() - t0
    t1 = time.time()
    if hasattr(mod, "run_tranche"):
        merged = mod.run_tranche(a.seed, a.tier, a.lo, a.hi, a.workers)
    else:
        merged = core.run_indices(mod, a.seed, a.tier, a.lo, a.hi, a.workers)
    merged["wall_run"] = time.time() - t1
    merged["wall_warm"] = t_warm
    merged["mode"] = a.mode
    if reach is not None:
        merged["coverage_extra"] = {"kernel_lines_reached": reach}
    # --- violations: classify, shrink, write replay files
    findings = core.load_known_findings()
    reports = []
    seen = set()
    known_hits = {}
    for v in merged["violations"]:
        vio = v["violation"]
        kf = core.match_known(mod.PROP_ID, vio, findings)
        if kf is not None:
            known_hits.setdefault(kf["id"], 0)
            known_hits[kf["id"]] += 1
            continue
        key = vio["oracle"]
        if key in seen or len(seen) >= 3:
            continue
        seen.add(key)
        path = os.path.join(REPLAY_DIR, "%s-%s-%d.json" % (mod.PROP_ID, a.seed, v["idx"]))
        res = None
        if vio["oracle"] != "hang":
            try:
                res = core.shrink(mod.RunClass, v["cfg"], v["ops"], vio["oracle"],
                                  simplifiers=getattr(mod, "SIMPLIFIERS", ()),
                                  budget_s=40.0)
            except BaseException as e:  # shrinking must never hide the violation
                res = None
        if res is None:
            res = {"cfg": v["cfg"], "ops": v["ops"], "violation": vio}
        extra = {"original_steps": len(v["ops"])}
        if vio["oracle"] == "hang":
            # the operations of a run that never returned are unknown: replay regenerates the run
            extra["regenerate"] = {"seed": a.seed, "idx": v["idx"], "tier": a.tier}
        core.write_replay(path, mod.PROP_ID, a.mode, a.seed, v["idx"], res, extra=extra)
        reports.append({"oracle": vio["oracle"], "replay": path, "idx": v["idx"], "mode": a.mode,
                        "steps": len(res["ops"]), "detail": res["violation"].get("detail")})
    merged["reports"] = reports
    merged["known_hits"] = known_hits
    merged["n_violating_runs"] = len(merged["violations"])
    merged["violations"] = merged["violations"][:5]
    with open(a.out, "wb") as f:
        pickle.dump(merged, f)
    return 0


def line_reach(mod, tier, nruns=150):
    """INTERP only: which lines of the package's kernels does this property's workload
    execute?  sys.monitoring LINE events on pyclifford/utils.py, stabilizer.py, circuit.py
    over a fixed probe batch (seed string 'reach').  Reported, never an oracle."""
    import core
    import seams
    mon = sys.monitoring
    tool = 3
    try:
        mon.use_tool_id(tool, "verif-reach")
    except ValueError:
        return None
    files = [os.path.join(seams.REPO, "pyclifford", f) for f in ("utils.py", "stabilizer.py", "circuit.py", "paulialg.py", "device.py")]
    hit = {}

    def on_line(code, line):
        fn = code.co_filename
        if fn in files:
            hit.setdefault((fn, code.co_qualname), set()).add(line)
            return None
        return mon.DISABLE
    mon.register_callback(tool, mon.events.LINE, on_line)
    mon.set_events(tool, mon.events.LINE)
    try:
        for i in range(nruns):
            rng = core.run_rng("reach", mod.PROP_ID, i)
            cfg = mod.gen_config(rng, tier)
            guarded(lambda: core.execute(mod.RunClass, cfg, rng=rng, max_steps=min(cfg["steps"], 60)))
    finally:
        mon.set_events(tool, 0)
        mon.register_callback(tool, mon.events.LINE, None)
        mon.free_tool_id(tool)
    if hasattr(mod, "drain_batch_stats"):
        mod.drain_batch_stats()
    # executable lines per function from the code objects of the modules
    import importlib
    import types
    out = {}
    for modname in ("utils", "stabilizer", "circuit", "paulialg", "device"):
        m = importlib.import_module("pyclifford." + modname)
        fn = m.__file__

        def walk(co):
            yield co
            for c in co.co_consts:
                if isinstance(c, types.CodeType):
                    yield from walk(c)
        try:
            top = compile(open(fn).read(), fn, "exec")
        except Exception:
            continue
        for co in walk(top):
            if co.co_name == "<module>":
                continue
            lines = set(l for _, _, l in co.co_lines() if l is not None and l != co.co_firstlineno)
            got = hit.get((fn, co.co_qualname), set())
            if got:
                out["%s.%s" % (modname, co.co_qualname)] = [len(got & lines), len(lines)]
    return dict(sorted(out.items()))


# -------------------------------------------------------------------- replay
def cmd_replay(a):
    with open(a.path) as f:
        doc = json.load(f)
    if doc.get("batch"):
        return replay_batch(doc, a.path)
    mode = doc.get("mode", "JIT")
    want = "1" if mode == "INTERP" else "0"
    if os.environ.get("NUMBA_DISABLE_JIT", "0") != want or os.environ.get("PYTHONHASHSEED") != "0":
        env = child_env(mode)
        return subprocess.call([PY, os.path.abspath(__file__), "replay", a.path] +
                               (["--log"] if a.log else []), env=env, cwd=VERIF)
    import core
    mod = prop_module(doc["property"])
    if hasattr(mod, "setup"):
        mod.setup()
    if doc.get("batch"):
        return replay_batch(doc, a.path)
    if doc.get("kind") == "chunk":
        # a violation that depends on process-global state left behind by EARLIER RUNS of the
        # same process: the history is the parent's pre-steps plus the listed run indices
        pre_steps(mod, mode, doc["tier"])
        last = None
        for idx in doc["runs"]:
            rng = core.run_rng(doc["seed"], mod.PROP_ID, idx)
            cfg = mod.gen_config(rng, doc["tier"])
            last = core.execute(mod.RunClass, cfg, rng=rng, max_steps=cfg["steps"])
        v = last["violation"] if last else None
        if v is not None and v["oracle"] == doc["oracle"]:
            print("violation in run %d after %d earlier runs of the same process: %s %s" % (
                doc["runs"][-1], len(doc["runs"]) - 1, v["oracle"], json.dumps(v["detail"], default=repr)[:300]))
            print("VIOLATION property=%s replay=%s" % (doc["property"], a.path))
            return 1
        print("no violation reproduced")
        return 0
    if doc.get("regenerate"):
        import signal
        g = doc["regenerate"]
        rng = core.run_rng(g["seed"], mod.PROP_ID, g["idx"])
        cfg = mod.gen_config(rng, g["tier"])
        signal.signal(signal.SIGVTALRM, core._alarm)
        signal.setitimer(signal.ITIMER_VIRTUAL, 2 * core.hang_limit())
        try:
            import resource
            lim = int(float(os.environ.get("VERIF_CHILD_AS_GB", "10")) * (1 << 30))
            resource.setrlimit(resource.RLIMIT_AS, (lim, lim))
        except Exception:
            pass
        try:
            r = core.execute(mod.RunClass, cfg, rng=rng, max_steps=cfg["steps"], want_log=a.log)
        except (core.RunTimeout, MemoryError):
            print("run %s did not finish within %.0f CPU seconds / the address-space limit" % (g["idx"], 2 * core.hang_limit()))
            print("VIOLATION property=%s replay=%s" % (doc["property"], a.path))
            return 1
        finally:
            signal.setitimer(signal.ITIMER_VIRTUAL, 0)
    else:
        r = core.execute(mod.RunClass, doc["cfg"], ops=doc["ops"], want_log=a.log)
    if a.log:
        for line in r["log"]:
            print(line)
    print("digest", r["digest"])
    v = r["violation"]
    if v is None:
        print("no violation reproduced")
        return 0
    print("violation at step %d: %s %s" % (v["step"], v["oracle"], json.dumps(v["detail"], default=repr)))
    want_v = doc.get("violation")
    if want_v and (want_v["oracle"] != v["oracle"] or want_v["step"] != v["step"]):
        print("DIFFERENT from recorded violation (%s at step %s)" % (want_v["oracle"], want_v["step"]))
        return 3
    print("VIOLATION property=%s replay=%s" % (doc["property"], a.path))
    return 1


def replay_batch(doc, path):
    """statistical oracles have no operation sequence to minimise: the replay file is the
    batch descriptor; replay regenerates exactly the runs that fed the statistic and must
    obtain the same number."""
    from collections import Counter
    pid = doc["property"]
    mod = prop_module(pid)
    n_interp, n_jit = doc["sizes"]
    env = {"VERIF_FILTER": json.dumps(doc["filter"])} if doc.get("filter") else None
    parts = collect(pid, doc["seed"], doc["tier"], n_interp, n_jit, env)
    if parts is None:
        return 2
    stats = Counter()
    for p in parts:
        stats.update(p["stats"])
    for name, ok, rec in mod.batch_oracles({"stats": stats, "parts": parts}, None):
        if name == doc["oracle"]:
            print("replayed batch statistic:", json.dumps(rec, sort_keys=True, default=repr))
            same = all(rec.get(k) == doc["record"].get(k) for k in ("n", "chi2", "z", "ones", "products"))
            if not same:
                print("DIFFERENT from the recorded statistic: %s" % json.dumps(doc["record"], default=repr))
                return 3
            if not ok:
                print("VIOLATION property=%s replay=%s" % (pid, path))
                return 1
            print("no violation reproduced")
            return 0
    print("statistic %s not produced by the regenerated batch" % doc["oracle"])
    return 0


# --------------------------------------------------------------------- check
def launch_tranche(pid, mode, seed, tier, lo, hi, workers, out):
    cmd = [PY, os.path.abspath(__file__), "tranche", pid, "--mode", mode, "--seed", str(seed),
           "--tier", tier, "--lo", str(lo), "--hi", str(hi), "--workers", str(workers), "--out", out]
    return subprocess.Popen(cmd, env=child_env(mode), cwd=VERIF)


def collect(pid, seed, tier, n_interp, n_jit, env_extra=None):
    """run the two tranches (INTERP and JIT configurations) and return their results."""
    ncpu = min(16, os.cpu_count() or 1)
    scratch = tempfile.mkdtemp(prefix="verif-%s-" % pid, dir=os.environ.get("TMPDIR", "/tmp"))
    procs = []
    if env_extra:
        os.environ.update(env_extra)
    try:
        if n_interp and n_jit:
            w_i = max(1, ncpu // 2) if tier == "quick" else max(1, ncpu // 4)
            w_j = max(1, ncpu - w_i)
        else:
            w_i = w_j = ncpu
        if n_interp:
            o = os.path.join(scratch, "interp.pkl")
            procs.append(("INTERP", launch_tranche(pid, "INTERP", seed, tier, 0, n_interp, w_i, o), o))
        if n_jit:
            o = os.path.join(scratch, "jit.pkl")
            procs.append(("JIT", launch_tranche(pid, "JIT", seed, tier, n_interp, n_interp + n_jit, w_j, o), o))
        parts = []
        for mode, p, o in procs:
            rc = p.wait()
            if rc != 0 or not os.path.exists(o):
                print("HARNESS-ERROR: tranche %s exited %s" % (mode, rc))
                return None
            with open(o, "rb") as f:
                parts.append(pickle.load(f))
        return parts
    finally:
        for _, p, _ in procs:
            if p.poll() is None:
                p.kill()
        shutil.rmtree(scratch, ignore_errors=True)
        for k in (env_extra or {}):
            os.environ.pop(k, None)


def cmd_check(a):
    pid = a.prop
    seed = int(os.environ.get("VERIF_SEED", "0")) if a.seed is None else a.seed
    tier = a.tier or os.environ.get("VERIF_TIER", "quick")
    n_interp, n_jit = SIZES[pid][tier]
    if a.runs:
        tot = n_interp + n_jit
        n_interp = int(a.runs * n_interp / tot)
        n_jit = a.runs - n_interp
    t0 = time.time()
    parts = collect(pid, seed, tier, n_interp, n_jit)
    if parts is None:
        return 2
    wall = time.time() - t0
    return finish_check(pid, seed, tier, parts, wall, (n_interp, n_jit))


def chunk_replay(pid, seed, tier, r):
    """build (and shorten) a process-history replay for a violation that needs earlier runs."""
    import core
    lo, _ = core.chunk_bounds(pid, r["idx"])
    path = r["replay"].replace(".json", "-history.json")

    def attempt(runs):
        doc = {"property": pid, "kind": "chunk", "mode": r["mode"], "seed": seed, "tier": tier,
               "runs": runs, "oracle": r["oracle"],
               "note": "the violation needs process-global state left by the earlier runs listed here "
                       "(after the deterministic pre-steps of the tranche parent)"}
        with open(path, "w") as f:
            json.dump(doc, f, indent=1)
        return subprocess.call([sys.executable, os.path.abspath(__file__), "replay", path],
                               stdout=subprocess.DEVNULL, cwd=VERIF) == 1
    runs = list(range(lo, r["idx"] + 1))
    if not attempt(runs):
        try:
            os.remove(path)
        except OSError:
            pass
        return None
    # shortest suffix of the history that still reproduces (binary search, a few trials)
    good = runs
    a, b = 0, len(runs) - 1
    trials = 0
    while a < b and trials < 7:
        mid = (a + b + 1) // 2
        cand = runs[mid:]
        trials += 1
        if attempt(cand):
            good = cand
            a = mid
        else:
            b = mid - 1
    attempt(good)
    return path


def finish_check(pid, seed, tier, parts, wall, sizes):
    import core
    from collections import Counter
    mod = prop_module(pid)
    stats, probes, cfgs = Counter(), Counter(), Counter()
    states, trans = set(), set()
    digests, nontriv = [], []
    steps = osteps = 0
    reports = []
    known_hits = Counter()
    samples = []
    config_runs = {}
    extra_cov = {}
    for p in parts:
        stats.update(p["stats"])
        probes.update(p["probes"])
        cfgs.update(p["cfgs"])
        states |= p["states"]
        trans |= p["trans"]
        digests += p["digests"]
        nontriv += p["nontrivial"]
        steps += p["steps"]
        osteps += p["oracle_steps"]
        reports += p["reports"]
        known_hits.update(p["known_hits"])
        samples += p["samples"]
        config_runs[p["mode"]] = {"runs": len(p["digests"]), "wall_s": round(p["wall_run"], 1),
                                  "warmup_s": round(p["wall_warm"], 1)}
        for k, v in (p.get("coverage_extra") or {}).items():
            extra_cov[k] = v
    # batch-level statistical oracles
    batch_records = []
    if hasattr(mod, "batch_oracles"):
        merged = {"stats": stats, "probes": probes, "parts": parts}
        for name, ok, rec in mod.batch_oracles(merged, None):
            batch_records.append(dict(rec, oracle=name, ok=bool(ok)))
            if not ok:
                safe = "".join(ch if ch.isalnum() else "_" for ch in name.split(".", 1)[-1])
                path = os.path.join(REPLAY_DIR, "%s-%s-batch-%s.json" % (pid, seed, safe))
                os.makedirs(os.path.dirname(path), exist_ok=True)
                flt = mod.batch_filter(rec) if hasattr(mod, "batch_filter") else None
                with open(path, "w") as f:
                    json.dump({"property": pid, "batch": True, "seed": seed, "tier": tier, "sizes": list(sizes),
                               "filter": flt, "oracle": name, "record": rec}, f, indent=1, default=repr)
                reports.append({"oracle": name, "replay": path, "idx": -1, "steps": 0, "detail": rec})
    # replay verification of every reported violation in a fresh interpreter
    verified = []
    harness_error = False
    chunk_failures = 0
    for r in reports:
        if r["idx"] < 0:
            verified.append(r)
            continue
        if r["oracle"] == "hang":
            # a hang is confirmed by the replay itself not finishing within the limit
            # the replay regenerates the run under the same CPU limit and reports the hang itself
            rc = subprocess.call([sys.executable, os.path.abspath(__file__), "replay", r["replay"]],
                                 stdout=subprocess.DEVNULL, cwd=VERIF)
            if rc == 1:
                verified.append(r)
            else:
                print("NOTE: run %s exceeded the CPU limit in the batch but completed on replay (rc=%s): "
                      "not reported" % (r["idx"], rc))
            continue
        rc = subprocess.call([sys.executable, os.path.abspath(__file__), "replay", r["replay"]],
                             stdout=subprocess.DEVNULL, cwd=VERIF)
        if rc == 1:
            verified.append(r)
            continue
        # not reproducible from its own operations alone: try the process history
        # (earlier runs of the same chunk process may have left global state behind)
        if chunk_failures >= 2:
            continue
        cpath = chunk_replay(pid, seed, tier, r)
        if cpath:
            r = dict(r, replay=cpath, steps=-1)
            verified.append(r)
        else:
            chunk_failures += 1
            print("HARNESS-ERROR: violation %s did not reproduce from %s (rc=%s) nor from its process history" % (
                r["oracle"], r["replay"], rc))
            harness_error = True
    findings = core.load_known_findings()
    for f in findings:
        if f.get("property") == pid and f.get("status") == "open":
            print("KNOWN-FINDING: property=%s %s (%s; reproduced in %d runs of this batch)" % (
                pid, f["id"], f.get("what", ""), known_hits.get(f["id"], 0)))
    nt_digests = set(d for d, nt in zip(digests, nontriv) if nt)
    runs = len(digests)
    import hashlib
    batch_digest = hashlib.sha256("".join(digests).encode()).hexdigest()[:16]
    cov = {
        "evaluations": runs,
        "distinct_nontrivial": len(nt_digests),
        "rule": getattr(mod, "RULE", "one evaluation = one simulated run (a seeded history of operations "
                        "and faults); non-trivial = executed at least one oracle-bearing step; distinct = "
                        "distinct SHA-256 of the run's event log (operation records + observed results)"),
        "samples": samples[:3] if samples else [{"note": "no short sample captured"}],
        "steps": steps,
        "oracle_steps": osteps,
        "runs_per_hour": int(runs / wall * 3600) if wall > 0 else 0,
        "seeds": {"VERIF_SEED": seed, "derivation": "random.Random('<seed>/<property>/<run index>') per run"},
        "config_runs": config_runs,
        "fault_kinds_fired": {k: v for k, v in sorted(stats.items()) if not k.startswith("env_")
                              and k not in ("fair_coins", "fair_ones")},
        "environment_events": {k: v for k, v in sorted(stats.items()) if k.startswith("env_")},
        "probes": dict(sorted(probes.items())),
        "distinct_states": len(states),
        "distinct_transitions": len(trans),
        "qubit_counts": {str(k): v for k, v in sorted(cfgs.items())},
        "batch_statistics": batch_records,
        "batch_digest": batch_digest,
        "components": {"real": ["pyclifford (all kernels, classes)", "numba JIT / CPython interpretation of the same kernels"],
                       "seeded": ["numba MT19937", "numpy global RandomState", "torch global generator"],
                       "stubbed": []},
        "simulated_time": "not applicable: the system under test reads no clock",
        "known_findings_reproduced": dict(known_hits),
    }
    cov.update(extra_cov)
    ev = {
        "property_id": pid, "tier": tier, "seed": seed, "level": "exploration",
        "coverage": cov,
        "assumptions": getattr(mod, "ASSUMPTIONS", [
            "sampling, not enumeration: a clean batch is evidence about the explored histories only",
            "reference model (letters + whole-group dictionary) validated against dense matrices at setup",
        ]),
        "wall_s": round(wall, 2),
        "violations": len(verified),
    }
    os.makedirs(EVID_DIR, exist_ok=True)
    with open(os.path.join(EVID_DIR, pid + ".json"), "w") as f:
        json.dump(ev, f, indent=1, sort_keys=True, default=repr)
    print("%s %s seed=%s runs=%d steps=%d oracle_steps=%d distinct_nontrivial=%d wall=%.1fs" % (
        pid, tier, seed, runs, steps, osteps, len(nt_digests), wall))
    req = getattr(mod, "REQUIRED_REACH", [])
    if req and runs >= 0.5 * sum(SIZES[pid]["quick"]) and not os.environ.get("VERIF_FILTER"):
        missing = [k for k in req if stats.get(k, 0) + probes.get(k, 0) == 0]
        if missing and not verified:     # (a batch that found violations is failing anyway: runs end early)
            print("HARNESS-ERROR: reach guard: never fired in this batch: %s" % ", ".join(missing))
            harness_error = True
    if harness_error:
        return 2
    if verified:
        for r in verified:
            print("  oracle=%s steps=%d detail=%s" % (r["oracle"], r["steps"], json.dumps(r["detail"], default=repr)[:300]))
            print("VIOLATION property=%s replay=%s" % (pid, r["replay"]))
        return 1
    return 0


# ------------------------------------------------------------------ selftest
def cmd_selftest(a):
    if a.what == "model":
        import refmodel
        n = refmodel.selftest(True)
        # seams: JIT coin prediction really predicts the kernel's coins
        rc = subprocess.call([PY, os.path.join(HERE, "selftests.py"), "seams"], env=child_env("JIT"), cwd=VERIF)
        return 0 if rc == 0 else 2
    rc = subprocess.call([PY, os.path.join(HERE, "selftests.py"), a.what] + a.rest, cwd=VERIF)
    return rc


def main():
    ap = argparse.ArgumentParser()
    sub = ap.add_subparsers(dest="cmd", required=True)
    c = sub.add_parser("check")
    c.add_argument("prop")
    c.add_argument("--tier", default=None)
    c.add_argument("--seed", type=int, default=None)
    c.add_argument("--runs", type=int, default=None)
    t = sub.add_parser("tranche")
    t.add_argument("prop")
    t.add_argument("--mode", required=True)
    t.add_argument("--seed", type=int, default=0)
    t.add_argument("--tier", default="quick")
    t.add_argument("--lo", type=int, default=0)
    t.add_argument("--hi", type=int, default=100)
    t.add_argument("--workers", type=int, default=1)
    t.add_argument("--out", required=True)
    r = sub.add_parser("replay")
    r.add_argument("path")
    r.add_argument("--log", action="store_true")
    s = sub.add_parser("selftest")
    s.add_argument("what")
    s.add_argument("rest", nargs="*")
    a = ap.parse_args()
    try:
        if a.cmd == "check":
            return cmd_check(a)
        if a.cmd == "tranche":
            return cmd_tranche(a)
        if a.cmd == "replay":
            return cmd_replay(a)
        if a.cmd == "selftest":
            return cmd_selftest(a)
    except SystemExit:
        raise
    except BaseException:
        traceback.print_exc()
        print("HARNESS-ERROR: %s" % (sys.exc_info()[0].__name__,))
        return 2


if __name__ == "__main__":
    sys.exit(main())
