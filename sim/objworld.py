"""C17 world: a population of objects that may share memory; copies, queries, in-place
operations and scribble faults interleaved by the scheduler; frame invariant after
every step (DESIGN 4.4, 8/C17)."""
import numpy as np

import refmodel as rm
import seams
import sut
from core import Run, Violation, Skip, new_entropy
from stateworld import word_images, inverse_word, rand_word

VALUE_KINDS = ("pauli", "mono", "list", "poly", "map", "state")
ALL_KINDS = VALUE_KINDS + ("gate", "layer", "circuit", "mcirc", "rec")


def _npv(a):
    """numpy view sharing storage with a (CPU) tensor; ndarrays pass through."""
    if hasattr(a, "detach"):
        return a.detach().numpy()
    return a


def _arr(a):
    a = np.asarray(_npv(a))
    return (a.tobytes(), a.shape, str(a.dtype))


def _arr_mod4(a):
    a = np.asarray(_npv(a))
    return (np.mod(a, 4).astype(np.int64).tobytes(), a.shape)


def _sN(o):
    """qubit number of a value object, -1 if it cannot be told (degenerate shapes)."""
    try:
        return int(o.N)
    except Exception:
        return -1


class Slot:
    __slots__ = ("obj", "kind", "roots")

    def __init__(self, obj, kind, roots):
        self.obj, self.kind, self.roots = obj, kind, set(roots)


# ------------------------------------------------------------------ snapshots
KNOWN_ATTRS = {"pauli": ("g", "p"), "mono": ("g", "p", "c"), "list": ("gs", "ps"), "map": ("gs", "ps"),
               "poly": ("gs", "ps", "cs"), "state": ("gs", "ps", "r")}


def _digest_any(v, depth=0):
    if hasattr(v, "detach") or isinstance(v, np.ndarray):
        return _arr(v)
    if depth < 4 and isinstance(v, dict):
        return tuple(sorted((repr(k), _digest_any(x, depth + 1)) for k, x in v.items()))
    if depth < 4 and isinstance(v, (list, tuple)):
        return tuple(_digest_any(x, depth + 1) for x in v)
    for k in ("gs", "g"):
        if depth < 4 and hasattr(v, k):
            return tuple((a, _digest_any(getattr(v, a), depth + 1)) for a in ("g", "p", "c", "gs", "ps", "cs", "r")
                         if hasattr(v, a))
    return repr(v)[:200]


def hidden_state(o, kind):
    """anything an object carries beyond its documented fields (caches, memos).  It is part of
    the snapshot of objects that are NOT involved in a step: a cache may be filled by a call
    on the object itself, but nothing may change it behind the object's back."""
    try:
        d = vars(o)
    except TypeError:
        return ()
    known = KNOWN_ATTRS.get(kind, ())
    return tuple(sorted((k, _digest_any(v)) for k, v in d.items() if k not in known))


def snap_value(o, kind):
    if kind == "pauli":
        core = ("pauli", _arr(o.g), int(o.p) % 4)
    elif kind == "mono":
        # the coefficient is compared bitwise: it can legitimately be nan/inf (inverse of a zero
        # monomial), and nan != nan would make an unchanged object look changed
        core = ("mono", _arr(o.g), int(o.p) % 4, np.asarray(o.c, dtype=np.complex128).tobytes())
    elif kind in ("list", "map"):
        core = (kind, _arr(o.gs), _arr(o.ps))
    elif kind == "poly":
        core = ("poly", _arr(o.gs), _arr(o.ps), _arr(o.cs))
    elif kind == "state":
        r = o.r
        core = ("state", _arr(o.gs), _arr(o.ps), int(r) if isinstance(r, (int, np.integer)) else repr(r))
    else:
        raise KeyError(kind)
    return core + (("hidden", hidden_state(o, kind)),)


def _ref_inverse_images(images):
    """brute-force inverse of a valid map on m<=3 qubits (harness arithmetic)."""
    import itertools
    m = len(images) // 2
    table = {}
    for l in itertools.product(range(4), repeat=m):
        il, ik = rm.apply_map((l, 0), images)
        table[il] = (l, (-ik) % 4)
    out = []
    for t in rm.identity_images(m):
        l, k = table[t[0]]
        out.append((l, k))
    return out


def _map_val(mp):
    return None if mp is None else ("map", _arr(mp.gs), _arr_mod4(mp.ps))


def snap_gate(g):
    gen = None if g.generator is None else snap_value(g.generator, "pauli")
    return ("gate", tuple(int(q) for q in g.qubits), gen, _map_val(g.forward_map), _map_val(g.backward_map))


def snap_layer(l):
    return ("layer", tuple(snap_gate(g) for g in l.gates), _map_val(l.forward_map), _map_val(l.backward_map))


def snap_circuit(c):
    fw = []
    for i, l in enumerate(c.layers_forward()):
        if i > 64:
            break
        fw.append(l)
    bw = []
    for i, l in enumerate(c.layers_backward()):
        if i > 64:
            break
        bw.append(l)
    # the backward walk is part of the value: backward()/povm()/repr() use it
    return ("circuit", _sN(c), tuple(snap_layer(l) for l in fw),
            _map_val(c.forward_map), _map_val(c.backward_map), tuple(snap_layer(l) for l in bw))


def snap(o, kind):
    if kind == "gate":
        return snap_gate(o)
    if kind == "layer":
        return snap_layer(o)
    if kind == "circuit":
        return snap_circuit(o)
    if kind == "rec":
        return ("rec", tuple(int(x) for x in o))
    if kind == "mcirc":
        # a circuit with measurement layers: its layout and the record it keeps of its last run
        mr = getattr(o, "measure_result", None)
        return ("mcirc", repr(o), None if mr is None else tuple(int(x) for x in mr))
    return snap_value(o, kind)


def _maps_equiv_lazy(before, after, other_before):
    """denotational about caches: a map that was None and got filled lazily is not a change
    of the gate (whether the filled value is the right inverse is C10's subject); a map
    that was present must stay bitwise the same."""
    if before == after:
        return True
    return before is None and after is not None


def gate_unchanged(b, a):
    if b[0] != a[0] or b[1] != a[1] or b[2] != a[2]:
        return False
    return _maps_equiv_lazy(b[3], a[3], b[4]) and _maps_equiv_lazy(b[4], a[4], b[3])


def unchanged(before, after, kind, strict_hidden=True):
    if kind in VALUE_KINDS:
        if before[:-1] != after[:-1]:
            return False
        return before[-1] == after[-1] if strict_hidden else True
    if kind == "gate":
        return gate_unchanged(before, after)
    if kind == "layer":
        if len(before[1]) != len(after[1]) or before[2:] != after[2:]:
            return False
        return all(gate_unchanged(x, y) for x, y in zip(before[1], after[1]))
    if kind == "circuit":
        if before[1] != after[1] or len(before[2]) != len(after[2]) or before[3:5] != after[3:5] \
                or len(before[5]) != len(after[5]):
            return False
        return all(unchanged(x, y, "layer") for x, y in zip(before[2], after[2])) and \
            all(unchanged(x, y, "layer") for x, y in zip(before[5], after[5]))
    return before == after


# --------------------------------------------------------------------- arrays
def arrays_of(o, kind):
    if kind in ("pauli", "mono"):
        # the phase is a plain int in pyclifford but can be a 0-d tensor view in torchclifford
        return [o.g] + ([o.p] if hasattr(o.p, "shape") else [])
    if kind in ("list", "map", "state"):
        return [o.gs, o.ps]
    if kind == "poly":
        return [o.gs, o.ps, o.cs]
    if kind == "gate":
        out = []
        if o.generator is not None:
            out += [o.generator.g]
        for m in (o.forward_map, o.backward_map):
            if m is not None:
                out += [m.gs, m.ps]
        return out
    if kind == "layer":
        out = []
        for g in o.gates:
            out += arrays_of(g, "gate")
        for m in (o.forward_map, o.backward_map):
            if m is not None:
                out += [m.gs, m.ps]
        return out
    if kind == "circuit":
        out = []
        for l in o.layers_forward():
            out += arrays_of(l, "layer")
        for m in (o.forward_map, o.backward_map):
            if m is not None:
                out += [m.gs, m.ps]
        return out
    return []


def subobjects(o, kind):
    """python objects held by reference (identity sharing)."""
    if kind == "gate":
        return [x for x in (o, o.generator, o.forward_map, o.backward_map) if x is not None]
    if kind == "layer":
        out = [o]
        for g in o.gates:
            out += subobjects(g, "gate")
        # the links into a layer chain are held by reference too (a layer that points at the
        # layers of some circuit shares structure with that circuit)
        out += [x for x in (getattr(o, "prev_layer", None), getattr(o, "next_layer", None)) if x is not None]
        return out + [m for m in (o.forward_map, o.backward_map) if m is not None]
    if kind == "circuit":
        out = [o]
        seen = set()
        # everything reachable through the doubly linked layer chain, in both directions
        for walk in (o.layers_forward(), o.layers_backward()):
            for i, l in enumerate(walk):
                if i > 64:
                    break
                for x in (l, getattr(l, "prev_layer", None), getattr(l, "next_layer", None)):
                    if x is not None and id(x) not in seen and hasattr(x, "gates"):
                        seen.add(id(x))
                        out += subobjects(x, "layer")
        return out + [m for m in (o.forward_map, o.backward_map) if m is not None]
    return [o]


def shares(a, ka, b, kb):
    for x in arrays_of(a, ka):
        x = _npv(x)
        if not isinstance(x, np.ndarray):
            continue
        for y in arrays_of(b, kb):
            y = _npv(y)
            if isinstance(y, np.ndarray) and np.shares_memory(x, y):
                return True
    ia = set(id(x) for x in subobjects(a, ka))
    return any(id(y) in ia for y in subobjects(b, kb))


def kind_of(pc, o):
    def cls(name):
        try:
            return getattr(pc, name)
        except AttributeError:
            return ()
    for name, kind in (("StabilizerState", "state"), ("CliffordMap", "map"), ("PauliPolynomial", "poly"),
                       ("PauliList", "list"), ("PauliMonomial", "mono"), ("Pauli", "pauli"),
                       ("CliffordGate", "gate"), ("CliffordLayer", "layer")):
        c = cls(name)
        if c and isinstance(o, c):
            return kind
    try:
        if isinstance(o, pc.circuit.CliffordCircuit):
            return "circuit"
    except AttributeError:
        pass
    return None


class ObjWorld(Run):
    prop_id = "C17"
    NSLOTS = 8

    def __init__(self, cfg):
        super().__init__(cfg)
        self.S = sut.backend(cfg.get("backend", "numpy"))
        self.pc = self.S.mod
        self.torch = self.S.name == "torch"
        self.n = cfg["n"]
        self.slots = {}
        self.next_root = 0
        self.last_used = []

    # ------------------------------------------------------------ helpers
    def fresh(self):
        self.next_root += 1
        return self.next_root

    def _N(self, s):
        o = s.obj
        if s.kind in VALUE_KINDS:
            return _sN(o)
        if s.kind == "gate":
            return None
        return None

    def by_kind(self, *kinds, N=None):
        out = []
        for name in sorted(self.slots):
            s = self.slots[name]
            if s.kind in kinds and (N is None or self._N(s) == N):
                out.append(name)
        return out

    def free_name(self, rng):
        names = ["o%d" % i for i in range(self.NSLOTS)]
        free = [x for x in names if x not in self.slots]
        if free and rng.random() < 0.85:
            return free[0]
        return rng.choice(names)

    def register(self, name, obj, kind, inputs):
        """result of a call: fresh root + roots of every input it actually shares with."""
        roots = {self.fresh()}
        for iname in inputs:
            s = self.slots.get(iname)
            if s is not None and shares(obj, kind, s.obj, s.kind):
                roots |= s.roots
        self.slots[name] = Slot(obj, kind, roots)

    def snapshot_all(self):
        return {name: snap(s.obj, s.kind) for name, s in self.slots.items()}

    def frame_check(self, pre, writes, ctx, involved=(), structural=False):
        wroots = set()
        for w in writes:
            if w in self.slots and not structural:
                # `structural` operations (take, compose) only re-arrange the receiver's own
                # layer lists: they cannot legitimately write through shared gates or arrays,
                # so nothing else may change, aliased or not
                wroots |= self.slots[w].roots
        own_layers = set()
        if structural:
            # a layer object handed out by the receiver (pick_layer) is a piece of the very
            # structure being re-arranged
            for w in writes:
                ws = self.slots.get(w)
                if ws is not None and ws.kind == "circuit":
                    own_layers |= set(id(x) for x in subobjects(ws.obj, "circuit") if hasattr(x, "gates"))
        for name, before in pre.items():
            s = self.slots.get(name)
            if s is None or name in writes:
                continue
            if s.roots & wroots:
                continue
            if s.kind == "layer" and id(s.obj) in own_layers:
                continue
            try:
                after = snap(s.obj, s.kind)
            except Exception as e:
                raise Violation("c17.frame", {"ctx": ctx, "changed": name, "kind": s.kind, "exc": repr(e)})
            if not unchanged(before, after, s.kind, strict_hidden=name not in involved):
                hid = s.kind in VALUE_KINDS and before[:-1] == after[:-1]
                raise Violation("c17.frame", {"ctx": ctx, "changed": name, "kind": s.kind,
                                              "writes": sorted(writes), "hidden_state_only": hid})
        self.oracle_steps += 1

    # ---------------------------------------------------------- proposals
    def propose(self, rng):
        if len(self.slots) < 2:
            return self._p_new(rng)
        kinds = self.cfg["ops"]
        for _ in range(30):
            kind = rng.choices(list(kinds), weights=[kinds[k] for k in kinds])[0]
            op = getattr(self, "_p_" + kind)(rng)
            if op is not None:
                return op
        return self._p_new(rng)

    def _lit_pauli(self, rng, n, herm=False):
        return rm.pstr((rm.rand_letters(rng, n, False), rng.choice((0, 2)) if herm else rng.randrange(4)))

    def _p_new(self, rng):
        n = self.n
        kind = rng.choice(["pauli", "pauli", "list", "list", "mono", "poly", "map", "state", "state",
                           "gate", "gate", "layer", "circuit", "smallmap", "smallpauli", "mcirc", "rec"] if not self.torch else
                          ["pauli", "pauli", "list", "list", "map", "state", "state", "state", "gate", "circuit",
                           "smallmap", "smallpauli"])
        op = {"op": "new", "slot": self.free_name(rng), "kind": kind, "entropy": new_entropy(rng)}
        if kind == "pauli":
            op["item"] = self._lit_pauli(rng, n, herm=rng.random() < 0.6)
        elif kind == "smallpauli":
            if n < 2:
                return None
            op["kind"] = "pauli"
            op["item"] = self._lit_pauli(rng, rng.randrange(1, n), herm=True)
        elif kind == "mono":
            op["item"] = self._lit_pauli(rng, n)
            op["c"] = [rng.choice([1.0, -0.5, 2.0, 0.0]), rng.choice([0.0, 0.0, 1.5])]
        elif kind == "list":
            L = rng.randrange(1, 6)
            u = rng.random()
            if u < 0.4:
                op["items"] = sut.strs(rm.rand_commuting_independent(rng, n, rng.randrange(1, n + 1)))
            elif u < 0.55:
                # commuting but DEPENDENT (a product of two entries, or a duplicate, appended): the
                # state constructors reject it - and must leave it alone while doing so
                gens = list(rm.rand_commuting_independent(rng, n, rng.randrange(1, n + 1)))
                if len(gens) >= 2 and rng.random() < 0.6:
                    i, j = rng.sample(range(len(gens)), 2)
                    gens.append(rm.pmul(gens[i], gens[j]))
                else:
                    gens.append(gens[rng.randrange(len(gens))])
                op["items"] = sut.strs(gens)
            else:
                op["items"] = [self._lit_pauli(rng, n) for _ in range(L)]
        elif kind == "poly":
            L = rng.randrange(1, 5)
            op["items"] = [self._lit_pauli(rng, n) for _ in range(L)]
            op["cs"] = [[rng.choice([1.0, -0.5, 2.0]), rng.choice([0.0, 0.0, 1.5])] for _ in range(L)]
        elif kind == "map":
            # special values matter for shortcuts in the library: the identity map now and then
            op["images"] = sut.strs(rm.identity_images(n) if rng.random() < 0.2 else rm.rand_clifford_images(rng, n))
        elif kind == "smallmap":
            if n < 2:
                return None
            op["kind"] = "map"
            op["images"] = sut.strs(rm.rand_clifford_images(rng, rng.randrange(1, n)))
        elif kind == "state":
            c = rng.choice(["stab", "stab", "zero", "one", "ghz", "mixed", "rbs", "rcs"] if not self.torch else
                           ["stab", "stab", "zero", "ghz", "mixed", "rcs", "rcs"])
            op["ctor"] = c
            if c == "stab":
                op["gens"] = sut.strs(rm.rand_commuting_independent(rng, n, rng.randrange(1, n + 1)))
            elif c == "rcs":
                op["r"] = rng.randrange(0, n + 1)
        elif kind == "gate":
            op["spec"] = self._gate_spec(rng)
        elif kind == "layer":
            op["specs"] = self._disjoint_specs(rng)
            op["compiled"] = rng.random() < 0.4
        elif kind == "circuit":
            op["specs"] = [self._gate_spec(rng, allow_random=False) for _ in range(rng.randrange(0, 6))]
            op["compiled"] = rng.choice(["no", "no", "circuit", "layers"])
        elif kind == "mcirc":
            # the Circuit class with measurement layers: a few gates and one to three measurements
            prog = []
            for _ in range(rng.randrange(1, 5)):
                if rng.random() < 0.5:
                    prog.append({"meas": sorted(rng.sample(range(n), rng.randrange(1, min(n, 2) + 1)))})
                else:
                    prog.append({"gate": self._gate_spec(rng, allow_random=False)})
            if not any("meas" in it for it in prog):
                prog.append({"meas": [rng.randrange(n)]})
            op["prog"] = prog
        elif kind == "rec":
            # an outcome record (+1/-1 list) owned by the caller, as handed to Circuit.backward
            ms = self.by_kind("mcirc")
            want = None
            if ms:
                want = getattr(self.slots[rng.choice(ms)].obj, "num_of_measures", None)
            L = want if isinstance(want, int) and 0 < want < 9 and rng.random() < 0.8 else rng.randrange(1, 4)
            op["values"] = [rng.choice((1, -1)) for _ in range(L)]
        return op

    def _gate_spec(self, rng, allow_random=True):
        n = self.n
        m = rng.randrange(1, min(n, 3) + 1)
        qubits = sorted(rng.sample(range(n), m))
        kind = rng.choice(["gen", "fmap", "bmap", "fbmap"] + ([] if self.torch else ["named"]) +
                          (["random"] if allow_random else []))
        spec = {"kind": kind, "qubits": qubits}
        if kind == "gen":
            spec["G"] = rm.pstr(rm.rand_hermitian(rng, m))
        elif kind in ("fmap", "bmap", "fbmap"):
            spec["word"] = sut.strs(rand_word(rng, m))
        elif kind == "named":
            spec["qubits"] = [rng.choice(qubits)]
            spec["name"] = rng.choice(["H", "S", "X", "Y", "Z"])
        spec["cached"] = rng.random() < 0.3
        return spec

    def _disjoint_specs(self, rng):
        n = self.n
        qs = list(range(n))
        rng.shuffle(qs)
        specs = []
        while qs and len(specs) < 3:
            m = rng.randrange(1, min(len(qs), 2) + 1)
            take, qs = sorted(qs[:m]), qs[m:]
            kind = rng.choice(["gen", "fmap", "bmap"])
            spec = {"kind": kind, "qubits": take, "cached": False}
            if kind == "gen":
                spec["G"] = rm.pstr(rm.rand_hermitian(rng, m))
            else:
                spec["word"] = sut.strs(rand_word(rng, m))
            specs.append(spec)
            if rng.random() < 0.4:
                break
        return specs

    def _biased_pick(self, rng, names):
        """bias toward objects just used (scribble right after copy/query/in-place)."""
        recent = [x for x in self.last_used if x in names]
        if recent and rng.random() < 0.6:
            return rng.choice(recent)
        return rng.choice(names)

    def _p_copy(self, rng):
        names = [x for x in sorted(self.slots) if self.slots[x].kind not in ("mcirc", "rec")]
        if not names:
            return None
        return {"op": "copy", "src": self._biased_pick(rng, names), "slot": self.free_name(rng)}

    def _p_scribble(self, rng):
        if "scribble" not in self.cfg["faults"]:
            return None
        names = sorted(self.slots)
        return {"op": "scribble", "slot": self._biased_pick(rng, names), "how": rng.randrange(1 << 30)}

    QUERIES = {
        "pauli": ["neg", "mul_i", "mul_m1", "mul_mi", "mul_1", "as_list", "as_monomial", "as_polynomial",
                  "tokenize", "trace", "weight", "repr", "matmul", "pauli_fn", "rot_gate", "rot_map",
                  "diagonalize", "mul_c", "add", "to_qutip"],
        "mono": ["neg", "mul_c", "as_polynomial", "trace", "repr", "inverse", "matmul", "add", "to_qutip"],
        "list": ["neg", "mul_i", "mul_m1", "get_int", "get_slice", "get_idx", "get_mask", "as_polynomial",
                 "tokenize", "trace", "weight", "repr", "len", "paulis_fn", "stabilizer_state", "to_qutip"],
        "poly": ["neg", "mul_c", "add", "sub", "matmul", "reduce", "trace", "get_int", "get_slice", "repr",
                 "div", "as_polynomial", "to_qutip", "tokenize", "weight", "len"],
        "map": ["compose", "inverse", "to_state", "repr", "get_slice", "neg", "tokenize", "weight"],
        "state": ["expect_pauli", "expect_list", "expect_poly", "expect_state", "entropy", "sample",
                  "get_prob", "density_matrix", "to_map", "stabilizers", "repr", "tokenize", "to_qutip",
                  "diagonalize", "get_slice", "expect_self_stabilizers", "measure_copy",
                  "neg", "mul_c", "div", "add", "sub", "matmul"],
        "gate": ["repr", "independent_from"],
        "layer": ["repr"],
        "circuit": ["repr", "povm"],
        "mcirc": ["repr"],
        "rec": ["repr", "len"],
    }

    def _p_query(self, rng):
        names = sorted(self.slots)
        name = self._biased_pick(rng, names)
        s = self.slots[name]
        q = rng.choice(self.QUERIES[s.kind])
        op = {"op": "query", "slot": name, "q": q, "out": self.free_name(rng), "entropy": new_entropy(rng)}
        N = self._N(s)
        need = {"matmul": ("pauli", "mono", "poly"), "compose": ("map",), "expect_pauli": ("pauli", "mono"),
                "expect_list": ("list", "map"), "expect_poly": ("poly",), "expect_state": ("state",),
                "add": ("pauli", "mono", "poly"), "sub": ("poly", "pauli"), "independent_from": ("gate",)}
        if q in need:
            cands = self.by_kind(*need[q], N=N) if N is not None else self.by_kind(*need[q])
            if not cands:
                return None
            op["arg"] = self._biased_pick(rng, cands)
        if q in ("get_int", "get_slice", "get_idx", "get_mask"):
            op["sel"] = rng.randrange(1 << 16)
        if q == "entropy":
            k = rng.randrange(0, self.n + 1)
            op["subsys"] = sorted(rng.sample(range(self.n), k))
            op["as_mask"] = rng.random() < 0.3
        if q == "sample":
            op["L"] = rng.randrange(0, 5)
        if q == "get_prob":
            op["bits"] = [rng.randrange(2) for _ in range(self.n)]
        if q == "to_state":
            op["r"] = rng.choice([None] + list(range(self.n + 1)))
        if q in ("mul_c", "div"):
            op["c"] = [rng.choice([2.0, -1.5, 0.5]), rng.choice([0.0, 1.0])]
            if q == "mul_c" and rng.random() < 0.25:
                op["c"] = rng.choice([[0.0, 0.0], [1.0, 0.0], [-1.0, 0.0], [0.0, 1.0]])   # special scalars
        if q == "diagonalize":
            op["i0"] = rng.randrange(self.n)
            op["causal"] = rng.random() < 0.3
        return op

    def _p_inplace(self, rng):
        n = self.n
        which = rng.choice(["rotate", "rotate", "transform", "transform", "measure", "measure", "postselect",
                            "embed", "gate_apply", "gate_apply", "layer_apply", "circuit_apply",
                            "compile", "take", "take", "take", "compose", "compose", "set_map", "set_r",
                            "pick_layer", "layer_take", "mc_forward", "mc_forward", "mc_backward", "mc_backward"])
        op = {"op": "inplace", "which": which, "entropy": new_entropy(rng)}
        vals = self.by_kind("pauli", "list", "poly", "map", "state", "mono", N=n)
        if which == "rotate":
            gens = self.by_kind("pauli")
            if not vals or not gens:
                return None
            g = self._biased_pick(rng, gens)
            gN = self._N(self.slots[g])
            op["recv"] = rng.choice(vals)
            op["arg"] = g
            if gN < n:
                op["qubits"] = sorted(rng.sample(range(n), gN))
            elif gN != n:
                return None
            return op
        if which == "transform":
            maps = self.by_kind("map")
            if not vals or not maps:
                return None
            m = self._biased_pick(rng, maps)
            mN = self._N(self.slots[m])
            op["recv"] = rng.choice(vals)
            op["arg"] = m
            if mN < n:
                op["qubits"] = sorted(rng.sample(range(n), mN))
            elif mN != n:
                return None
            return op
        if which == "measure":
            sts = self.by_kind("state", N=n)
            obs = self.by_kind("list", "state", "map", N=n)
            if not sts or not obs:
                return None
            op["recv"] = rng.choice(sts)
            op["arg"] = self._biased_pick(rng, obs)
            return op
        if which == "postselect":
            sts = self.by_kind("state", N=n)
            ps = self.by_kind("pauli", N=n)
            if not sts or not ps:
                return None
            op["recv"] = rng.choice(sts)
            op["arg"] = self._biased_pick(rng, ps)
            op["b"] = rng.randrange(2)
            return op
        if which == "embed":
            big = self.by_kind("map", N=n)
            small = [m for m in self.by_kind("map") if 0 < self._N(self.slots[m]) <= n]
            if not big or not small:
                return None
            op["recv"] = rng.choice(big)
            op["arg"] = self._biased_pick(rng, small)
            if op["arg"] == op["recv"]:
                return None
            op["qubits"] = sorted(rng.sample(range(n), self._N(self.slots[op["arg"]])))
            return op
        if which in ("gate_apply", "layer_apply", "circuit_apply"):
            us = self.by_kind(which.split("_")[0])
            tv = self.by_kind("pauli", "list", "poly", "map", "state", N=n)
            if not us or not tv:
                return None
            op["unit"] = self._biased_pick(rng, us)
            op["recv"] = rng.choice(tv)
            op["dir"] = rng.choice(["forward", "backward"])
            return op
        if which == "compile":
            us = self.by_kind("gate", "layer", "circuit")
            if not us:
                return None
            op["recv"] = rng.choice(us)
            return op
        if which == "take":
            cs = self.by_kind("circuit")
            gs = self.by_kind("gate")
            if not cs or not gs:
                return None
            # bias toward circuits that were just composed / copied: a structural mutation right
            # after the call is what exposes structure shared between two circuits
            op["recv"] = self._biased_pick(rng, cs)
            op["arg"] = self._biased_pick(rng, gs)
            return op
        if which in ("mc_forward", "mc_backward"):
            ms = self.by_kind("mcirc")
            sts = self.by_kind("state", N=n)
            if not ms or not sts:
                return None
            op["unit"] = self._biased_pick(rng, ms)
            op["recv"] = self._biased_pick(rng, sts)
            if which == "mc_backward":
                rs = self.by_kind("rec")
                if rs and rng.random() < 0.8:
                    op["arg"] = self._biased_pick(rng, rs)
            return op
        if which == "pick_layer":
            # a layer object handed out by a circuit (layers_forward / layers_backward): it IS part
            # of the circuit (legitimate alias); a copy() of it must be independent of the circuit
            cs = self.by_kind("circuit")
            if not cs:
                return None
            op["recv"] = self._biased_pick(rng, cs)
            op["index"] = rng.randrange(0, 5)
            op["walk"] = rng.choice(["forward", "backward"])
            op["out"] = self.free_name(rng)
            return op
        if which == "layer_take":
            ls = self.by_kind("layer")
            gs = self.by_kind("gate")
            if not ls or not gs:
                return None
            op["recv"] = self._biased_pick(rng, ls)
            op["arg"] = self._biased_pick(rng, gs)
            return op
        if which == "compose":
            cs = self.by_kind("circuit")
            if len(cs) < 2:
                return None
            op["recv"] = self._biased_pick(rng, cs)
            op["arg"] = rng.choice([c for c in cs if c != op["recv"]])
            return op
        if which == "set_map":
            gs = self.by_kind("gate")
            ms = self.by_kind("map")
            ps = self.by_kind("pauli")
            if not gs:
                return None
            op["recv"] = rng.choice(gs)
            what = rng.choice(["forward", "backward", "generator"])
            op["what"] = what
            pool = ps if what == "generator" else ms
            if not pool:
                return None
            op["arg"] = self._biased_pick(rng, pool)
            return op
        if which == "set_r":
            sts = self.by_kind("state", N=n)
            if not sts:
                return None
            op["recv"] = rng.choice(sts)
            op["r"] = rng.randrange(0, n + 1)
            return op
        return None

    # ---------------------------------------------------------- execution
    def apply(self, op):
        res = getattr(self, "_a_" + op["op"])(op)
        used = [op.get(k) for k in ("slot", "src", "recv", "arg", "unit", "out") if op.get(k)]
        for k in used[:2]:
            sl = self.slots.get(k)
            if sl is not None:
                try:
                    self.states.add(hash(snap(sl.obj, sl.kind)) & 0xFFFFFFFFFFFF)
                except Exception:
                    pass
        self.last_used = (used + self.last_used)[:4]
        return res

    def build_gate(self, spec):
        pc = self.pc
        q = spec["qubits"]
        if max(q) >= self.n:
            raise Skip()
        kind = spec["kind"]
        m = len(q)
        if kind == "gen":
            G = rm.pparse(spec["G"])
            if len(G[0]) != m:
                raise Skip()
            gate = pc.CliffordGate(*q)
            gate.set_generator(self.S.mk_pauli(G))
        elif kind in ("fmap", "bmap", "fbmap"):
            w = sut.parse_list(spec["word"])
            if any(len(g[0]) != m for g in w):
                raise Skip()
            gate = pc.CliffordGate(*q)
            if kind in ("fmap", "fbmap"):
                gate.set_forward_map(self.S.mk_map(word_images(m, w)))
            if kind in ("bmap", "fbmap"):
                gate.set_backward_map(self.S.mk_map(word_images(m, inverse_word(w))))
        elif kind == "named":
            gate = getattr(pc, spec["name"])(*q)
        else:
            gate = pc.CliffordGate(*q)
        if spec.get("cached") and kind != "random":
            gate.compile()
        return gate

    def _a_new(self, op):
        pc, n = self.pc, self.n
        kind = op["kind"]
        seams.prepare_call(op)
        try:
            if kind == "pauli":
                o = self.S.mk_pauli(rm.pparse(op["item"]))
            elif kind == "mono":
                r = rm.pparse(op["item"])
                o = pc.PauliMonomial(sut.g_of(r[0]), int(r[1])).set_c(complex(*op["c"]))
            elif kind == "list":
                o = self.S.mk_list(sut.parse_list(op["items"]))
            elif kind == "poly":
                rs = sut.parse_list(op["items"])
                gs = np.stack([sut.g_of(r[0]) for r in rs])
                o = pc.PauliPolynomial(gs, np.array([r[1] for r in rs], dtype=np.int_))
                o.set_cs(np.array([complex(*c) for c in op["cs"]], dtype=np.complex128))
            elif kind == "map":
                o = self.S.mk_map(sut.parse_list(op["images"]))
            elif kind == "state":
                c = op["ctor"]
                if c == "stab":
                    gens = sut.parse_list(op["gens"])
                    if any(len(g[0]) != n for g in gens):
                        raise Skip()
                    o = pc.stabilizer_state(self.S.mk_list(gens))
                elif c == "zero":
                    o = pc.zero_state(n)
                elif c == "one":
                    o = pc.one_state(n)
                elif c == "ghz":
                    o = pc.ghz_state(n)
                elif c == "mixed":
                    o = pc.maximally_mixed_state(n)
                elif c == "rbs":
                    o = pc.random_bit_state(n)
                else:
                    o = pc.random_clifford_state(n, op["r"])
            elif kind == "gate":
                o = self.build_gate(op["spec"])
            elif kind == "layer":
                gates = [self.build_gate(s) for s in op["specs"]]
                o = pc.CliffordLayer(*gates)
                if op.get("compiled") and all(s["kind"] != "random" for s in op["specs"]):
                    o.compile(n)
            elif kind == "rec":
                o = [int(x) for x in op["values"]]
            elif kind == "mcirc":
                if self.torch:
                    raise Skip()
                o = pc.Circuit(n)
                for it in op["prog"]:
                    if "meas" in it:
                        if max(it["meas"]) >= n:
                            raise Skip()
                        o.measure(*it["meas"])
                    else:
                        if it["gate"]["kind"] == "random":
                            raise Skip()
                        o.take(self.build_gate(it["gate"]))
            elif kind == "circuit":
                o = pc.identity_circuit(n)
                for s in op["specs"]:
                    o.take(self.build_gate(s))
                if op.get("compiled") == "circuit":
                    o.compile()
                elif op.get("compiled") == "layers":
                    for i, l in enumerate(o.layers_forward()):
                        if i % 2 == 0:
                            l.compile(n)
            else:
                raise Skip()
        except Skip:
            raise
        except Exception as e:
            self.stats["env_error:new_%s:%s" % (kind, type(e).__name__)] += 1
            return "env_error"
        self.slots[op["slot"]] = Slot(o, kind, {self.fresh()})
        return kind

    # -- copy -------------------------------------------------------------
    def _a_copy(self, op):
        if op["src"] not in self.slots:
            raise Skip()
        s = self.slots[op["src"]]
        if s.kind in ("mcirc", "rec"):
            raise Skip()
        pre = self.snapshot_all()
        try:
            cp = s.obj.copy()
        except Exception as e:
            raise Violation("c17.copy_raised", {"kind": s.kind, "exc": repr(e)})
        k2 = kind_of(self.pc, cp)
        if k2 != s.kind:
            raise Violation("c17.copy_kind", {"kind": s.kind, "got": k2})
        a, b = snap(s.obj, s.kind), snap(cp, s.kind)
        if s.kind in VALUE_KINDS:
            a, b = a[:-1], b[:-1]     # documented fields; a copy need not duplicate caches
        if a != b:
            raise Violation("c17.copy_unfaithful", {"kind": s.kind, "diff": _first_diff(a, b)})
        if shares(cp, s.kind, s.obj, s.kind):
            raise Violation("c17.copy_shares_memory", {"kind": s.kind})
        self.stats["copy:" + s.kind] += 1
        self.slots[op["slot"]] = Slot(cp, s.kind, {self.fresh()})
        pre.pop(op["slot"], None)
        self.frame_check(pre, set(), "copy:" + s.kind, involved={op["src"]})
        self.nontrivial = True
        self.trans.add(hash(("copy", s.kind)) & 0xFFFFFFFFFFFF)
        return s.kind

    # -- scribble ---------------------------------------------------------
    def _a_scribble(self, op):
        if op["slot"] not in self.slots:
            raise Skip()
        s = self.slots[op["slot"]]
        pre = self.snapshot_all()
        h = op["how"]
        arrs = [a for a in (_npv(x) for x in arrays_of(s.obj, s.kind)) if isinstance(a, np.ndarray) and a.size > 0]
        done = None
        if s.kind in ("pauli", "mono") and h % 3 == 0:
            s.obj.p = (int(s.obj.p) + 1 + h % 3) % 4
            done = "p"
        elif s.kind == "state" and h % 5 == 0:
            s.obj.r = (int(s.obj.r) + 1) % (self.n + 1)
            done = "r"
        elif s.kind == "rec":
            # the caller goes on using its own list
            if s.obj and h % 2 == 0:
                s.obj[(h >> 4) % len(s.obj)] *= -1
            else:
                s.obj.append(1 if (h >> 3) % 2 else -1)
            done = "list"
        elif arrs:
            a = arrs[h % len(arrs)]
            if not a.flags.writeable:
                raise Skip()
            idx = np.unravel_index((h >> 8) % a.size, a.shape)
            if a.dtype.kind == "c":
                a[idx] = a[idx] * 2 + 1
            elif a.ndim == 2:
                a[idx] = 1 - a[idx] if a[idx] in (0, 1) else 0
            else:
                a[idx] = (a[idx] + 2) % 4
            done = "array%d" % (h % len(arrs))
        else:
            raise Skip()
        self.stats["scribble"] += 1
        self.frame_check(pre, {op["slot"]}, "scribble:%s:%s" % (s.kind, done))
        self.nontrivial = True
        return done

    # -- queries ----------------------------------------------------------
    def _a_query(self, op):
        pc, n = self.pc, self.n
        if op["slot"] not in self.slots:
            raise Skip()
        s = self.slots[op["slot"]]
        o = s.obj
        q = op["q"]
        if q not in self.QUERIES[s.kind]:
            raise Skip()
        arg = None
        inputs = [op["slot"]]
        if "arg" in op:
            if op["arg"] not in self.slots:
                raise Skip()
            a = self.slots[op["arg"]]
            arg = a.obj
            inputs.append(op["arg"])
            if s.kind in VALUE_KINDS and a.kind in VALUE_KINDS and _sN(arg) != _sN(o):
                raise Skip()
        if s.kind in VALUE_KINDS and q in ("expect_pauli", "expect_list", "expect_poly", "expect_state", "entropy",
                                           "get_prob", "sample", "density_matrix", "diagonalize") and _sN(o) != n:
            raise Skip()
        # size guard (harness resource bound, not an oracle): products of polynomials multiply
        # their term counts and torchclifford does not merge equal terms - a few chained
        # products give a million-term object whose repr() alone takes minutes
        def _terms(x, k):
            try:
                return int(len(x.cs)) if k == "poly" else (int(x.gs.shape[0]) if k in ("list", "map", "state") else 1)
            except Exception:
                return 1
        ta = _terms(o, s.kind)
        tb = _terms(arg, a.kind) if arg is not None else 1
        if ta > 512 or tb > 512 or (q == "matmul" and ta * tb > 2048):
            self.stats["skipped:operand_too_large"] += 1
            raise Skip()
        pre = self.snapshot_all()
        seams.prepare_call(op)
        res = None
        try:
            if q == "neg":
                res = -o
            elif q == "mul_i":
                res = 1j * o
            elif q == "mul_m1":
                res = -1 * o
            elif q == "mul_mi":
                res = -1j * o
            elif q == "mul_1":
                res = 1 * o
            elif q == "mul_c":
                res = complex(*op["c"]) * o
            elif q == "div":
                res = o / complex(*op["c"])
            elif q == "as_list":
                res = o.as_list()
            elif q == "as_monomial":
                res = o.as_monomial()
            elif q == "as_polynomial":
                res = o.as_polynomial()
            elif q == "tokenize":
                o.tokenize()
            elif q == "trace":
                o.trace()
            elif q == "weight":
                o.weight()
            elif q == "repr":
                repr(o)
            elif q == "len":
                len(o)
            elif q == "matmul":
                res = o @ arg
            elif q == "add":
                res = o + arg
            elif q == "sub":
                res = o - arg
            elif q == "reduce":
                res = o.reduce()
            elif q == "inverse":
                res = o.inverse()
            elif q == "pauli_fn":
                res = pc.pauli(o)
            elif q == "paulis_fn":
                res = pc.paulis(o)
            elif q == "rot_gate":
                res = pc.clifford_rotation_gate(o)
            elif q == "rot_map":
                res = pc.clifford_rotation_map(o)
            elif q == "diagonalize":
                if s.kind == "pauli":
                    if not any(int(v) for v in o.g):
                        raise Skip()
                    res = pc.diagonalize(o, op["i0"], causal=op["causal"])
                else:
                    if int(o.r) != 0:
                        raise Skip()
                    res = pc.diagonalize(o)
            elif q == "to_qutip":
                if _sN(o) > 3:
                    raise Skip()
                o.to_qutip()
            elif q in ("get_int", "get_slice", "get_idx", "get_mask"):
                L = len(o)
                if L == 0:
                    raise Skip()
                sel = op["sel"]
                if q == "get_int":
                    res = o[sel % L]
                elif q == "get_slice":
                    a0 = sel % L
                    st = 1 + (sel >> 4) % 2
                    res = o[a0::st]
                elif q == "get_idx":
                    res = o[np.array([(sel >> i) % L for i in (0, 3, 5)][: 1 + sel % 3])]
                else:
                    mk = np.array([bool((sel >> i) & 1) for i in range(L)])
                    res = o[mk]
            elif q == "stabilizer_state":
                res = pc.stabilizer_state(o)
            elif q == "compose":
                res = o.compose(arg)
            elif q == "to_state":
                res = o.to_state(op["r"])
            elif q == "to_map":
                res = o.to_map()
            elif q == "stabilizers":
                res = o.stabilizers
            elif q in ("expect_pauli", "expect_list", "expect_poly", "expect_state"):
                o.expect(arg)
            elif q == "expect_self_stabilizers":
                o.expect(o.stabilizers)
            elif q == "measure_copy":
                # the documented idiom for a non-destructive measurement
                c = o.copy()
                c.measure(o.stabilizers)
            elif q == "entropy":
                sub = op["subsys"]
                if op.get("as_mask"):
                    mk = np.zeros(n, dtype=np.bool_)
                    mk[sub] = True
                    o.entropy(mk) if len(sub) else o.entropy([])
                else:
                    o.entropy(list(sub))
            elif q == "sample":
                res = o.sample(op["L"])
            elif q == "get_prob":
                o.get_prob(self.S.arr([2 * b for b in op["bits"]], "p"))
            elif q == "density_matrix":
                res = o.density_matrix
            elif q == "independent_from":
                o.independent_from(arg)
            elif q == "povm":
                if any(g.generator is None and g.forward_map is None and g.backward_map is None
                       for l in o.layers_forward() for g in l.gates):
                    pass
                for st in o.povm(2):
                    res = st
            else:
                raise Skip()
        except Skip:
            raise
        except Exception as e:
            self.stats["env_error:%s.%s:%s" % (s.kind, q, type(e).__name__)] += 1
            res = None
        self.stats["query"] += 1
        self.frame_check(pre, set(), "query:%s.%s" % (s.kind, q), involved=set(inputs))
        self.nontrivial = True
        self.trans.add(hash(("q", s.kind, q)) & 0xFFFFFFFFFFFF)
        if res is not None:
            k = kind_of(pc, res)
            if k is not None and q in ("compose", "inverse") and s.kind == "map":
                # compose and inverse are documented to return NEW maps (property text of C04, and
                # C17 lists them among the queries): a result that shares storage with an operand
                # would let a later in-place operation on the result change the operand
                for iname in inputs:
                    si = self.slots.get(iname)
                    if si is not None and shares(res, k, si.obj, si.kind):
                        raise Violation("c17.new_map_shares_operand", {"query": q, "operand": iname, "kind": si.kind})
            if k is not None:
                self.register(op["out"], res, k, inputs)
                if self.slots[op["out"]].roots & (s.roots):
                    self.probes["query_result_is_a_view"] += 1
                return [q, k]
        return [q, None]

    # -- in-place ---------------------------------------------------------
    def _a_inplace(self, op):
        pc, n = self.pc, self.n
        which = op["which"]
        for k in ("recv", "arg", "unit"):
            if k in op and op[k] not in self.slots:
                raise Skip()
        recv = self.slots[op["recv"]]
        arg = self.slots[op["arg"]] if "arg" in op else None
        unit = self.slots[op["unit"]] if "unit" in op else None
        pre = self.snapshot_all()
        writes = {op["recv"]}
        extend_from = []
        seams.prepare_call(op)

        def mask_of(q):
            return None if q is None else self.S.mk_mask(q, n)
        try:
            if which == "rotate":
                if recv.kind not in VALUE_KINDS or arg.kind != "pauli" or _sN(recv.obj) != n:
                    raise Skip()
                q = op.get("qubits")
                gN = _sN(arg.obj)
                if (q is None and gN != n) or (q is not None and (len(q) != gN or max(q) >= n)):
                    raise Skip()
                recv.obj.rotate_by(arg.obj, mask_of(q)) if q is not None else recv.obj.rotate_by(arg.obj)
            elif which == "transform":
                if recv.kind not in VALUE_KINDS or arg.kind != "map" or _sN(recv.obj) != n:
                    raise Skip()
                q = op.get("qubits")
                mN = _sN(arg.obj)
                if int(arg.obj.gs.shape[0]) != 2 * mN:
                    raise Skip()
                if (q is None and mN != n) or (q is not None and (len(q) != mN or max(q) >= n)):
                    raise Skip()
                recv.obj.transform_by(arg.obj, mask_of(q)) if q is not None else recv.obj.transform_by(arg.obj)
            elif which == "measure":
                if recv.kind != "state" or arg.kind not in ("list", "state", "map") or _sN(arg.obj) != n \
                        or _sN(recv.obj) != n or arg is recv:
                    raise Skip()
                if not _valid_r(recv.obj, n):
                    raise Skip()
                recv.obj.measure(arg.obj)
            elif which == "postselect":
                if recv.kind != "state" or arg.kind != "pauli" or _sN(arg.obj) != n or _sN(recv.obj) != n:
                    raise Skip()
                recv.obj.postselect(arg.obj, op["b"])
            elif which == "embed":
                q = op["qubits"]
                if recv.kind != "map" or arg.kind != "map" or _sN(recv.obj) != n or len(q) != _sN(arg.obj) \
                        or max(q) >= n or int(arg.obj.gs.shape[0]) != 2 * len(q) or int(recv.obj.gs.shape[0]) != 2 * n:
                    raise Skip()
                recv.obj.embed(arg.obj, self.S.mk_mask(q, n))
            elif which in ("gate_apply", "layer_apply", "circuit_apply"):
                if unit.kind != which.split("_")[0] or recv.kind not in VALUE_KINDS or _sN(recv.obj) != n:
                    raise Skip()
                if recv.kind == "mono":
                    raise Skip()
                getattr(unit.obj, op["dir"])(recv.obj)
            elif which == "compile":
                if recv.kind == "gate":
                    recv.obj.compile()
                elif recv.kind == "layer":
                    recv.obj.compile(n)
                elif recv.kind == "circuit":
                    recv.obj.compile()
                else:
                    raise Skip()
            elif which == "take":
                if recv.kind != "circuit" or arg.kind != "gate":
                    raise Skip()
                recv.obj.take(arg.obj)
                extend_from.append(arg)
            elif which == "compose":
                if recv.kind != "circuit" or arg.kind != "circuit" or arg is recv:
                    raise Skip()
                recv.obj.compose(arg.obj)
                extend_from.append(arg)
            elif which in ("mc_forward", "mc_backward"):
                if unit is None or unit.kind != "mcirc" or recv.kind != "state" or _sN(recv.obj) != n \
                        or not _valid_r(recv.obj, n) or self.torch:
                    raise Skip()
                if arg is not None and arg.kind != "rec":
                    raise Skip()
                # the circuit keeps a record of its own runs: it is written too; a record handed
                # in by the caller stays the caller's
                writes = {op["recv"], op["unit"]}
                if which == "mc_forward":
                    unit.obj.forward(recv.obj)
                elif arg is not None:
                    unit.obj.backward(recv.obj, arg.obj)
                else:
                    unit.obj.backward(recv.obj)
            elif which == "pick_layer":
                if recv.kind != "circuit" or self.torch:
                    raise Skip()
                walk = list(recv.obj.layers_forward() if op["walk"] == "forward" else recv.obj.layers_backward())
                walk = [l for l in walk if hasattr(l, "gates")]
                if not walk:
                    raise Skip()
                layer = walk[op["index"] % len(walk)]
                writes = set()
                self.slots[op["out"]] = Slot(layer, "layer", set(recv.roots))
                pre.pop(op["out"], None)
                self.stats["config:layer_handed_out_by_circuit"] += 1
            elif which == "layer_take":
                if recv.kind != "layer" or arg.kind != "gate" or self.torch:
                    raise Skip()
                recv.obj.take(arg.obj)
                extend_from.append(arg)
            elif which == "set_map":
                if recv.kind != "gate":
                    raise Skip()
                what = op["what"]
                if what == "generator":
                    if arg.kind != "pauli" or _sN(arg.obj) != recv.obj.n:
                        raise Skip()
                    recv.obj.set_generator(arg.obj)
                else:
                    if arg.kind != "map" or _sN(arg.obj) != recv.obj.n:
                        raise Skip()
                    (recv.obj.set_forward_map if what == "forward" else recv.obj.set_backward_map)(arg.obj)
                extend_from.append(arg)
            elif which == "set_r":
                if recv.kind != "state":
                    raise Skip()
                recv.obj.set_r(op["r"])
            else:
                raise Skip()
        except Skip:
            raise
        except Exception as e:
            self.stats["env_error:%s:%s" % (which, type(e).__name__)] += 1
        for a in extend_from:
            if shares(recv.obj, recv.kind, a.obj, a.kind):
                recv.roots |= a.roots
            # the argument may have landed elsewhere than in the receiver itself (a layer that is
            # part of a circuit hands a gate on to its neighbours): whoever holds it now may alias it
            for y in self.slots.values():
                if y is not a and y is not recv and shares(y.obj, y.kind, a.obj, a.kind):
                    y.roots |= a.roots
        if extend_from:
            # containers are held by reference: whatever currently contains the receiver
            # (a circuit holding this gate, ...) now also may-alias what the receiver holds
            for y in self.slots.values():
                if y is not recv and shares(y.obj, y.kind, recv.obj, recv.kind):
                    y.roots |= recv.roots
        self.stats["inplace:" + which] += 1
        self.frame_check(pre, writes, "inplace:" + which, involved={op.get(k) for k in ("recv", "arg", "unit")},
                         structural=which in ("take", "compose"))
        self.nontrivial = True
        self.trans.add(hash(("ip", which, recv.kind, arg.kind if arg else None)) & 0xFFFFFFFFFFFF)
        return which


def _valid_r(st, n):
    r = st.r
    return isinstance(r, (int, np.integer)) and 0 <= int(r) <= n


def _first_diff(a, b, path=""):
    if type(a) != type(b):
        return path + ":type"
    if isinstance(a, tuple):
        if len(a) != len(b):
            return path + ":len"
        for i, (x, y) in enumerate(zip(a, b)):
            if x != y:
                return _first_diff(x, y, path + "/%d" % i)
        return path
    return path
